package rules

import (
	"fmt"
	"go/ast"
	"go/constant"
	"go/token"
	"go/types"
	"sort"
	"strings"

	"verif/checker/core"
)

const (
	queryPk8 = "influxql/query"
	coordPk8 = "v1/coordinator"
)

func init() {
	register(&Prop{
		ID:       "C42",
		Patterns: []string{"./tsdb", "./v1/coordinator"},
		Level:    "other",
		Explanation: "Necessary-condition rules for authorized, sorted, live metadata listings, decided on types, call arguments and CFG paths in package tsdb (and the statement executor): " +
			"(1) auth-passthrough: in every function or literal that has a query.Authorizer parameter, every authorizer-typed call argument and struct-field value is that very parameter (never nil, OpenAuthorizer or another value), the parameter is only reassigned to OpenAuthorizer on the `auth == nil` branch, and every such function is in the rule table; " +
			"(2) authorized-positive (gate summaries): a function with an authorizer yields a positive result only under a gate — AuthorizerIsOpen(auth), auth.AuthorizeSeriesRead(…), auth == nil, a listed delegate called with auth, a boolean only ever assigned from those, or len(x)>0 of a list obtained from an authorizing producer. Boolean helpers: every `return true` is gated, every other first result is false, a gate-derived variable or a delegate call. List producers: every returned list is nil, the result of a listed producer called with auth, or a local whose every reaching append/element store is gated or adds only authorized-derived values; " +
			"(3) deferred-authorization in Store.TagValues/makeTagValues: tagValues.values is only assigned from MeasurementTagKeyValuesByExpr(auth,…) (or compacted from itself), makeTagValues emits a pair only per element of values[ki], the returned list is built only from makeTagValues results; measurementSeriesKeyByExprIterator.Next returns a key only where its stored auth is nil or authorizes the series; " +
			"(4) sorted: name filters sort before building the iterator, AND/OR merge with bytesutil.Union/Intersect of sorted operands, Store.TagKeys/TagValues sort keys before use (also before every keysSorted=true call), values are sorted before being published, TagValues sorts its groups; " +
			"(5) live-only: wherever series are enumerated to find an authorized one, FilterUndeletedSeriesIDIterator wraps the iterator first; " +
			"(6) executor: SHOW MEASUREMENTS / TAG KEYS / TAG VALUES pass ectx.Authorizer to the store and emit no row for an empty key/value group.",
		NotCovered:  "that the index iterators return live names in sorted order, stale per-iteration flag values, conditions from the expression grammar, exactly-once (deduplication by the merge iterators), field keys (no fine-grained authorization, uses OpenAuthorizer by design), and Store.TagKeys returning a group header with an empty key list for a measurement without any authorized key (dropped by the executor, rule 6).",
		Assumptions: []string{"a nil Authorizer means authorization is disabled (query.AuthorizerIsOpen)", "bytesutil.Union/Intersect keep sorted inputs sorted"},
		Run:         runC42,
	})
}

// ---------------------------------------------------------------- tables (confirmed by reading tsdb/index.go, tsdb/store.go)

// boolean helpers (first result bool): "is there an authorized series such that …"
var c42Bool = map[string]int{ // name -> minimal number of authorization uses (gate calls) in the body
	"IndexSet.measurementAuthorizedSeries": 2,
	"IndexSet.measurementHasTagValue":      3,
	"IndexSet.measurementHasEmptyTagValue": 2,
	"IndexSet.measurementHasTagValueRegex": 3,
	"IndexSet.TagKeyHasAuthorizedSeries":   3,
}

// list producers (first result a list / iterator / set of names)
var c42Prod = map[string]int{
	"IndexSet.MeasurementNamesByExpr":         2,
	"IndexSet.measurementNamesByExpr":         5,
	"IndexSet.measurementNamesByNameFilter":   1,
	"IndexSet.MeasurementNamesByPredicate":    2,
	"IndexSet.measurementNamesByPredicate":    5,
	"IndexSet.measurementNamesByTagFilter":    4,
	"IndexSet.measurementNamesByTagPredicate": 1,
	"IndexSet.tagValuesByKeyAndExpr":          1, // + the `auth != nil` test
	"IndexSet.MeasurementTagKeyValuesByExpr":  3,
	"Store.MeasurementNames":                  1,
	"Store.TagKeys":                           2,
}

// functions with an authorizer decided by their own rule
var c42Special = map[string]string{
	"Store.TagValues": "deferred-authorization rule",
	"IndexSet.MeasurementSeriesKeyByExprIterator": "stores auth in the iterator; Next is checked",
}

// constant authorizer arguments accepted in functions that have an authorizer: caller -> callee -> reason
var c42ConstArgOK = map[string]map[string]string{
	"Store.TagKeys":   {"tsdb.IndexSet.MeasurementNamesByExpr": "candidate measurement list only; every key emitted for a candidate is authorized afterwards (TagKeyHasAuthorizedSeries / MeasurementTagKeyValuesByExpr with auth), checked by authorized-positive"},
	"Store.TagValues": {"tsdb.IndexSet.MeasurementNamesByExpr": "candidate measurement list only; pairs are emitted per authorized value (MeasurementTagKeyValuesByExpr with auth), checked by deferred-authorization"},
}

// pure wrappers that keep (a subset of) the content of their first argument
var c42Wrap = map[string]bool{
	"pkg/slices.CopyChunkedByteSlices":     true,
	"tsdb.newFileMeasurementSliceIterator": true,
}

var c42Merge = map[string]bool{"pkg/bytesutil.Union": true, "pkg/bytesutil.Intersect": true}

// ---------------------------------------------------------------- engine

type c42ctx struct {
	p        *core.Prog
	r        *core.Report
	authT    types.Type
	boolFn   map[*types.Func]bool
	prodFn   map[*types.Func]bool
	graphs   map[*core.Func]map[*ast.FuncLit]*core.Graph
	litUnits map[*ast.FuncLit]bool // literals to be verified as boolean units
}

type c42unit struct {
	c    *c42ctx
	f    *core.Func
	g    *core.Graph
	body *ast.BlockStmt
	sig  *types.Signature
	auth types.Object
	name string
	lit  *ast.FuncLit

	uses      int
	dbool     map[types.Object]int8
	derivMemo map[string]int8
}

func (c *c42ctx) isAuthT(t types.Type) bool {
	return t != nil && c.authT != nil && types.Identical(t, c.authT)
}

func (c *c42ctx) authIndex(sig *types.Signature) int {
	if sig == nil {
		return -1
	}
	for i := 0; i < sig.Params().Len(); i++ {
		if c.isAuthT(sig.Params().At(i).Type()) {
			return i
		}
	}
	return -1
}

func (c *c42ctx) litGraph(f *core.Func, fl *ast.FuncLit) *core.Graph {
	if c.graphs[f] == nil {
		c.graphs[f] = map[*ast.FuncLit]*core.Graph{}
	}
	if g, ok := c.graphs[f][fl]; ok {
		return g
	}
	g := f.LitGraph(fl)
	c.graphs[f][fl] = g
	return g
}

func (c *c42ctx) funcUnit(f *core.Func) *c42unit {
	sig := f.Obj.Type().(*types.Signature)
	u := &c42unit{c: c, f: f, g: f.Graph(), body: f.Decl.Body, sig: sig, name: f.Name, dbool: map[types.Object]int8{}, derivMemo: map[string]int8{}}
	if i := c.authIndex(sig); i >= 0 {
		u.auth = sig.Params().At(i)
	}
	return u
}

func (c *c42ctx) litUnit(f *core.Func, fl *ast.FuncLit, outer types.Object) *c42unit {
	sig, _ := f.Info().TypeOf(fl).(*types.Signature)
	u := &c42unit{c: c, f: f, g: c.litGraph(f, fl), body: fl.Body, sig: sig, lit: fl, dbool: map[types.Object]int8{}, derivMemo: map[string]int8{}}
	u.name = fmt.Sprintf("%s$lit%d", f.Name, c.p.Fset.Position(fl.Pos()).Line-c.p.Fset.Position(f.Decl.Pos()).Line)
	u.auth = outer
	if i := c.authIndex(sig); i >= 0 {
		u.auth = sig.Params().At(i)
	}
	return u
}

func (u *c42unit) info() *types.Info { return u.f.Info() }

func (u *c42unit) own(e ast.Expr) bool {
	return u.auth != nil && core.ObjOf(u.info(), e) == u.auth
}

// inUnit reports whether pos lies in the unit body but not inside a nested function literal.
func (u *c42unit) inUnit(pos token.Pos) bool {
	if pos < u.body.Pos() || pos >= u.body.End() {
		return false
	}
	inside := true
	ast.Inspect(u.body, func(n ast.Node) bool {
		if fl, ok := n.(*ast.FuncLit); ok && fl.Body.Pos() <= pos && pos < fl.Body.End() {
			inside = false
			return false
		}
		return true
	})
	return inside
}

// authArgIsOwn: the call passes the unit's own authorizer at the callee's authorizer position.
func (u *c42unit) authArgIsOwn(c *ast.CallExpr, sig *types.Signature) bool {
	i := u.c.authIndex(sig)
	return i >= 0 && i < len(c.Args) && u.own(c.Args[i])
}

// gateCall: a call whose true result means "authorized (for the item at hand)".
func (u *c42unit) gateCall(c *ast.CallExpr) bool {
	info := u.info()
	fn := core.Callee(info, c)
	switch core.FName(fn) {
	case "influxql/query.AuthorizerIsOpen":
		return len(c.Args) == 1 && u.own(c.Args[0])
	case "influxql/query.Authorizer.AuthorizeSeriesRead":
		se, ok := ast.Unparen(c.Fun).(*ast.SelectorExpr)
		return ok && u.own(se.X)
	}
	if fn != nil && u.c.boolFn[fn] {
		return u.authArgIsOwn(c, fn.Type().(*types.Signature))
	}
	switch fx := ast.Unparen(c.Fun).(type) {
	case *ast.Ident:
		// local func variable only ever assigned authorizing literals
		v, ok := info.Uses[fx].(*types.Var)
		if !ok || fn != nil {
			return false
		}
		sig, _ := v.Type().Underlying().(*types.Signature)
		if sig == nil || sig.Results().Len() == 0 || !isBool8(sig.Results().At(0).Type()) || !u.authArgIsOwn(c, sig) {
			return false
		}
		sites := core.AssignsTo8(info, u.f.Decl.Body, v)
		n := 0
		for _, s := range sites {
			if s.Rhs == nil {
				continue
			}
			fl, isLit := ast.Unparen(s.Rhs).(*ast.FuncLit)
			if !isLit {
				return false
			}
			u.c.litUnits[fl] = true
			n++
		}
		return n > 0
	case *ast.FuncLit:
		sig, _ := info.TypeOf(fx).(*types.Signature)
		if sig == nil || sig.Results().Len() == 0 || !isBool8(sig.Results().At(0).Type()) || u.c.authIndex(sig) >= 0 {
			return false
		}
		u.c.litUnits[fx] = true
		return true
	}
	return false
}

func isBool8(t types.Type) bool {
	b, ok := t.Underlying().(*types.Basic)
	return ok && b.Kind() == types.Bool
}

// prodCall: a listed producer called with the unit's own authorizer.
func (u *c42unit) prodCall(c *ast.CallExpr) bool {
	fn := core.Callee(u.info(), c)
	return fn != nil && u.c.prodFn[fn] && u.authArgIsOwn(c, fn.Type().(*types.Signature))
}

// baseGate: edges on which authorization is established by a gate call or auth == nil.
func (u *c42unit) baseTest(x ast.Expr, val bool) bool {
	if c, ok := x.(*ast.CallExpr); ok && val && u.gateCall(c) {
		return true
	}
	if y, nonNilOnTrue, ok := core.NilTest(u.info(), x); ok && u.own(y) {
		return (val == nonNilOnTrue) == false // auth is nil
	}
	return false
}

func (u *c42unit) baseGate() core.EdgePred { return core.ImpliesEdge8(u.baseTest) }

func (u *c42unit) fullGate() core.EdgePred {
	return core.ImpliesEdge8(func(x ast.Expr, val bool) bool {
		if u.baseTest(x, val) {
			return true
		}
		if id, ok := x.(*ast.Ident); ok && val {
			if v, ok := u.info().Uses[id].(*types.Var); ok && isBool8(v.Type()) && u.derivedBool(v) {
				return true
			}
		}
		// len(E) > 0 where E is authorized-derived
		if cm, ok := core.CmpOf8(core.Fact8{X: x, Val: val}); ok {
			for _, c := range []core.Cmp8{cm, {L: cm.R, Op: swapTok8(cm.Op), R: cm.L}} {
				lc, isCall := c.L.(*ast.CallExpr)
				if !isCall || !core.Builtin("len")(u.info(), lc) || len(lc.Args) != 1 {
					continue
				}
				k, isC := core.IntConst8(u.info(), c.R)
				if !isC {
					continue
				}
				nonEmpty := (c.Op == token.GTR && constant.Sign(k) == 0) || (c.Op == token.NEQ && constant.Sign(k) == 0) || (c.Op == token.GEQ && constant.Sign(k) > 0)
				if nonEmpty && u.derivedAt(lc.Args[0], u.g.NodeOf(x)) {
					return true
				}
			}
		}
		return false
	})
}

func swapTok8(op token.Token) token.Token {
	switch op {
	case token.LSS:
		return token.GTR
	case token.GTR:
		return token.LSS
	case token.LEQ:
		return token.GEQ
	case token.GEQ:
		return token.LEQ
	}
	return op
}

// nodeIn returns the unit-graph node holding the AST node (nil if it is in a nested literal or elsewhere).
func (u *c42unit) nodeIn(a ast.Node) *core.Node {
	if a == nil || !u.inUnit(a.Pos()) {
		return nil
	}
	return u.g.NodeOf(a)
}

func (u *c42unit) gated(n *core.Node, gate core.EdgePred) bool {
	return n != nil && len(u.g.Bypassing8([]*core.Node{n}, gate)) == 0
}

// derivedBool: a bool local that can only be true because a gate said so.
func (u *c42unit) derivedBool(v types.Object) bool {
	switch u.dbool[v] {
	case 1:
		return true
	case 2:
		return false
	case 3:
		return true // cycle: optimistic, the other sites decide
	}
	u.dbool[v] = 3
	info := u.info()
	ok := true
	sites := core.AssignsTo8(info, u.f.Decl.Body, v)
	if _, isParam := paramOf8(u.sig, v); isParam || len(sites) == 0 {
		ok = false
	}
	for _, s := range sites {
		switch {
		case s.Rhs == nil && s.Index == -1 && s.Op == token.DEFINE:
			// var v bool  (false)
		case s.Rhs == nil:
			ok = false
		case s.Index == -1:
			rhs := ast.Unparen(s.Rhs)
			if core.IsConstBool8(info, rhs, false) {
				continue
			}
			if core.IsConstBool8(info, rhs, true) {
				if !u.gated(u.nodeIn(s.Stmt), u.baseGate()) {
					ok = false
				}
				continue
			}
			if c, isCall := rhs.(*ast.CallExpr); isCall && u.gateCall(c) {
				continue
			}
			ok = false
		case s.Index == 0:
			if c, isCall := ast.Unparen(s.Rhs).(*ast.CallExpr); isCall && u.gateCall(c) {
				continue
			}
			ok = false
		default:
			ok = false
		}
	}
	if ok {
		u.dbool[v] = 1
	} else {
		u.dbool[v] = 2
	}
	return ok
}

func paramOf8(sig *types.Signature, v types.Object) (int, bool) {
	if sig == nil {
		return -1, false
	}
	for i := 0; i < sig.Params().Len(); i++ {
		if sig.Params().At(i) == v {
			return i, true
		}
	}
	return -1, false
}

// storeSite8 is an assignment that can change the content of local v.
type storeSite8 struct {
	stmt   ast.Node
	rhs    ast.Expr // value expression (call for tuple)
	index  int      // -1 single, >=0 tuple result index, -2 range
	decl   bool     // declaration without value
	elem   bool     // v[i]… = rhs
	selfAp bool     // rhs is append(<v or v[i]>, …)
	elems  []ast.Expr
}

func (u *c42unit) sitesOf(v types.Object) []storeSite8 {
	info := u.info()
	var out []storeSite8
	for _, a := range core.AssignsTo8(info, u.f.Decl.Body, v) {
		s := storeSite8{stmt: a.Stmt, rhs: a.Rhs, index: a.Index, decl: a.Rhs == nil}
		out = append(out, s)
	}
	// element stores v[i] = …, v[i][j] = …
	ast.Inspect(u.f.Decl.Body, func(n ast.Node) bool {
		as, ok := n.(*ast.AssignStmt)
		if !ok {
			return true
		}
		for i, l := range as.Lhs {
			b := ast.Unparen(l)
			isElem := false
			for {
				if ix, ok := b.(*ast.IndexExpr); ok {
					b, isElem = ast.Unparen(ix.X), true
					continue
				}
				break
			}
			if !isElem || core.ObjOf(info, b) != v {
				continue
			}
			s := storeSite8{stmt: as, index: -1, elem: true}
			if len(as.Lhs) == len(as.Rhs) {
				s.rhs = as.Rhs[i]
			} else if len(as.Rhs) == 1 {
				s.rhs, s.index = as.Rhs[0], i
			}
			out = append(out, s)
		}
		return true
	})
	for i := range out {
		s := &out[i]
		if s.rhs == nil || s.index != -1 {
			continue
		}
		if c, ok := ast.Unparen(s.rhs).(*ast.CallExpr); ok && core.Builtin("append")(info, c) && len(c.Args) >= 1 {
			b := ast.Unparen(c.Args[0])
			for {
				if ix, ok := b.(*ast.IndexExpr); ok {
					b = ast.Unparen(ix.X)
					continue
				}
				break
			}
			if core.ObjOf(info, b) == v {
				s.selfAp = true
				s.elems = c.Args[1:]
			}
		}
	}
	return out
}

// reaching: the store sites of v whose effect may be visible at node use.
func (u *c42unit) reaching(v types.Object, use *core.Node) []storeSite8 {
	sites := u.sitesOf(v)
	kill := map[*core.Node]bool{}
	for _, s := range sites {
		if !s.elem && !s.selfAp {
			if n := u.nodeIn(s.stmt); n != nil {
				kill[n] = true
			}
		}
	}
	var out []storeSite8
	for _, s := range sites {
		n := u.nodeIn(s.stmt)
		if n == nil || use == nil {
			out = append(out, s) // in a nested literal: assume visible
			continue
		}
		if n == use && (s.selfAp || s.elem) {
			// the store at the use node itself is examined separately
			out = append(out, s)
			continue
		}
		reach := u.g.Reach(core.After(n, nil), func(x *core.Node) bool { return kill[x] && x != use }, nil)
		if reach[use] {
			out = append(out, s)
		}
	}
	return out
}

// derivedAt: the value of e at node use contains only names that passed an authorization gate.
func (u *c42unit) derivedAt(e ast.Expr, use *core.Node) bool {
	info := u.info()
	e = ast.Unparen(e)
	switch x := e.(type) {
	case *ast.Ident:
		if core.IsNilIdent(info, x) {
			return true
		}
		v, ok := core.ObjOf(info, x).(*types.Var)
		if !ok || v.IsField() || v.Parent() == nil || v.Pkg() == nil || v.Parent() == v.Pkg().Scope() {
			return false
		}
		if _, isParam := paramOf8(u.sig, v); isParam {
			return false
		}
		key := fmt.Sprintf("%p@%p", v, use)
		switch u.derivMemo[key] {
		case 1, 3:
			return true
		case 2:
			return false
		}
		u.derivMemo[key] = 3
		ok = true
		sites := u.reaching(v, use)
		if len(sites) == 0 {
			ok = false
		}
		for _, s := range sites {
			if !u.siteOK(v, s) {
				ok = false
			}
		}
		if ok {
			u.derivMemo[key] = 1
		} else {
			u.derivMemo[key] = 2
		}
		return ok
	case *ast.CompositeLit:
		for _, el := range x.Elts {
			val := el
			if kv, ok := el.(*ast.KeyValueExpr); ok {
				val = kv.Value
			}
			switch info.TypeOf(val).Underlying().(type) {
			case *types.Slice, *types.Map:
				if isByteSlice8(info.TypeOf(val)) {
					continue // a single name, not a list
				}
				if !u.derivedAt(val, use) {
					return false
				}
			}
		}
		return true
	case *ast.SliceExpr:
		if x.High != nil {
			if k, ok := core.IntConst8(info, x.High); ok && constant.Sign(k) == 0 {
				return true // x[:0] — empty
			}
		}
		return u.derivedAt(x.X, use)
	case *ast.IndexExpr:
		return u.derivedAt(x.X, use)
	case *ast.CallExpr:
		if tv := info.Types[x.Fun]; tv.IsType() && len(x.Args) == 1 {
			return u.derivedAt(x.Args[0], use)
		}
		if core.Builtin("make")(info, x) {
			return true
		}
		if u.prodCall(x) {
			return true
		}
		name := core.FName(core.Callee(info, x))
		if c42Wrap[name] && len(x.Args) >= 1 {
			return u.derivedAt(x.Args[0], use)
		}
		if c42Merge[name] && len(x.Args) == 2 {
			return u.derivedAt(x.Args[0], use) && u.derivedAt(x.Args[1], use)
		}
		if name == "tsdb.MeasurementSliceIterator.UnderlyingSlice" || name == "tsdb.fileMeasurementSliceIterator.UnderlyingSlice" || name == "tsdb.measurementSliceIterator.UnderlyingSlice" {
			if se, ok := ast.Unparen(x.Fun).(*ast.SelectorExpr); ok {
				return u.derivedAt(se.X, use)
			}
		}
		return false
	}
	return false
}

func isByteSlice8(t types.Type) bool {
	s, ok := t.Underlying().(*types.Slice)
	if !ok {
		return false
	}
	b, ok := s.Elem().Underlying().(*types.Basic)
	return ok && b.Kind() == types.Byte
}

func (u *c42unit) siteOK(v types.Object, s storeSite8) bool {
	n := u.nodeIn(s.stmt)
	switch {
	case s.decl && !s.elem:
		return s.index == -1 // `var x T`
	case s.index == -2:
		// range variable: the ranged expression must be derived
		return u.derivedAt(s.rhs, n)
	case s.index >= 0:
		c, ok := ast.Unparen(s.rhs).(*ast.CallExpr)
		return ok && s.index == 0 && u.prodCall(c)
	case s.selfAp:
		if u.gated(n, u.fullGate()) {
			return true
		}
		for _, e := range s.elems {
			if !u.derivedAt(e, n) {
				return false
			}
		}
		return len(s.elems) > 0
	case s.elem:
		if u.gated(n, u.fullGate()) {
			return true
		}
		if _, isLit := ast.Unparen(s.rhs).(*ast.CompositeLit); isLit && isEmptyStruct8(u.info().TypeOf(s.rhs)) {
			return false // a set insertion `m[k] = struct{}{}` adds the key: must be gated
		}
		return u.derivedAt(s.rhs, n)
	default:
		return u.derivedAt(s.rhs, n)
	}
}

func isEmptyStruct8(t types.Type) bool {
	st, ok := t.Underlying().(*types.Struct)
	return ok && st.NumFields() == 0
}

// countUses counts gate and producer calls with the own authorizer directly in the unit body.
func (u *c42unit) countUses() int {
	n := 0
	ast.Inspect(u.body, func(x ast.Node) bool {
		if fl, ok := x.(*ast.FuncLit); ok && fl != u.lit {
			// a literal invoked in place and used as a gate counts as one use (seen at its call)
			return false
		}
		if c, ok := x.(*ast.CallExpr); ok {
			if u.gateCall(c) || u.prodCall(c) {
				n++
			}
		}
		return true
	})
	return n
}

func (u *c42unit) construct() string { return "tsdb." + u.name }

// checkBool verifies a unit whose first result is bool.
func (u *c42unit) checkBool(min int) {
	const rule = "authorized-positive"
	r, info := u.c.r, u.info()
	pos, good := 0, true
	gate := u.fullGate()
	for _, x := range u.g.Exits {
		rs, ok := x.N.(*ast.ReturnStmt)
		if !ok {
			if x.Kind != core.KPanic {
				r.Bad(rule, u.construct(), "fall-off", u.g.Line(x), "exit without return")
				good = false
			}
			continue
		}
		if len(rs.Results) == 0 {
			r.Bad(rule, u.construct(), "bare-return", u.g.Line(x), "bare return: the boolean result cannot be attributed to a gate")
			good = false
			continue
		}
		res := ast.Unparen(rs.Results[0])
		switch {
		case core.IsConstBool8(info, res, false):
		case core.IsConstBool8(info, res, true):
			pos++
			if !u.gated(x, gate) {
				r.Bad(rule, u.construct(), "ungated-true", u.g.Line(x), "`return true` is reachable without AuthorizerIsOpen(auth) / auth.AuthorizeSeriesRead / an authorizing delegate having said yes")
				good = false
			}
		default:
			if c, isCall := res.(*ast.CallExpr); isCall && u.gateCall(c) {
				pos++
				continue
			}
			if id, isId := res.(*ast.Ident); isId {
				if v, isVar := info.Uses[id].(*types.Var); isVar && u.derivedBool(v) {
					pos++
					continue
				}
			}
			r.Bad(rule, u.construct(), "unattributed-result", u.g.Line(x), "the boolean result is neither a constant, a gate-derived variable nor a delegate call with auth: "+core.Trim(core.ExprStr(res), 60))
			good = false
		}
	}
	uses := u.countUses()
	if uses < min || pos == 0 {
		r.Bad(rule, u.construct(), "gates:count", u.f.Pos(), fmt.Sprintf("%d authorization use(s) and %d positive return(s) found, confirmed by reading: >= %d use(s)", uses, pos, min))
		good = false
	}
	if good {
		r.Ok(rule, u.construct(), u.c.p.Pos(u.body.Pos()), fmt.Sprintf("%d positive return(s), each under a gate; %d authorization use(s) with the own authorizer", pos, uses))
	}
}

// checkProd verifies a unit whose first result is a list of names.
func (u *c42unit) checkProd(min int) {
	const rule = "authorized-positive"
	r, info := u.c.r, u.info()
	good := true
	lists := 0
	for _, x := range u.g.Exits {
		rs, ok := x.N.(*ast.ReturnStmt)
		if !ok {
			if x.Kind != core.KPanic {
				r.Bad(rule, u.construct(), "fall-off", u.g.Line(x), "exit without return")
				good = false
			}
			continue
		}
		if len(rs.Results) == 0 {
			r.Bad(rule, u.construct(), "bare-return", u.g.Line(x), "bare return: the list result cannot be attributed")
			good = false
			continue
		}
		res := ast.Unparen(rs.Results[0])
		if core.IsNilIdent(info, res) {
			continue
		}
		lists++
		if c, isCall := res.(*ast.CallExpr); isCall && u.prodCall(c) {
			continue // `return producer(auth, …)` forwarding the tuple
		}
		if !u.derivedAt(res, x) {
			r.Bad(rule, u.construct(), "unauthorized-result", u.g.Line(x), "the returned list may contain an element that was added without an authorization gate and does not come from an authorizing producer: "+core.Trim(core.ExprStr(res), 60))
			good = false
		}
	}
	uses := u.countUses()
	if uses < min || lists == 0 {
		r.Bad(rule, u.construct(), "gates:count", u.f.Pos(), fmt.Sprintf("%d authorization use(s) and %d list return(s) found, confirmed by reading: >= %d use(s)", uses, lists, min))
		good = false
	}
	if good {
		r.Ok(rule, u.construct(), u.c.p.Pos(u.body.Pos()), fmt.Sprintf("%d list return(s), every element authorized; %d authorization use(s) with the own authorizer", lists, uses))
	}
}

// ---------------------------------------------------------------- run

func runC42(p *core.Prog, r *core.Report, tier string) {
	qp := p.Pkg(queryPk8)
	tp := p.Pkg(tsdbP)
	if qp == nil || tp == nil {
		r.Bad("anchor", tsdbP, "unresolved", "-", "package tsdb / influxql/query not loaded")
		return
	}
	ao := qp.Types.Scope().Lookup("Authorizer")
	if !r.Check(ao != nil, "anchor", queryPk8+".Authorizer", "unresolved", "-", "type resolved") {
		return
	}
	c := &c42ctx{p: p, r: r, authT: ao.Type(), boolFn: map[*types.Func]bool{}, prodFn: map[*types.Func]bool{},
		graphs: map[*core.Func]map[*ast.FuncLit]*core.Graph{}, litUnits: map[*ast.FuncLit]bool{}}
	for n := range c42Bool {
		if f := r.Need(p, tsdbP, n); f != nil {
			c.boolFn[f.Obj] = true
		}
	}
	for n := range c42Prod {
		if f := r.Need(p, tsdbP, n); f != nil {
			c.prodFn[f.Obj] = true
		}
	}
	c42Passthrough(c)
	c42Positive(c)
	c42Deferred(c)
	c42Sorted(c)
	c42Live(c)
	c42Executor(c)
}

// ---------------------------------------------------------------- (1) pass-through

func c42Passthrough(c *c42ctx) {
	const rule = "auth-passthrough"
	p, r := c.p, c.r
	args, fields, fns := 0, 0, 0
	for _, f := range p.Funcs(tsdbP) {
		if f.Decl.Body == nil {
			continue
		}
		info := f.Info()
		sig := f.Obj.Type().(*types.Signature)
		outer := types.Object(nil)
		if i := c.authIndex(sig); i >= 0 {
			outer = sig.Params().At(i)
			fns++
			_, a := c42Bool[f.Name]
			_, b := c42Prod[f.Name]
			_, s := c42Special[f.Name]
			r.Saw(f)
			r.Check(a || b || s, rule, f.String(), "unlisted-auth-function", f.Pos(), "function with a query.Authorizer parameter is covered by the rule table")
		}
		// walk with a stack of authorizer scopes
		var walk func(n ast.Node, own types.Object)
		walk = func(n ast.Node, own types.Object) {
			ast.Inspect(n, func(x ast.Node) bool {
				switch e := x.(type) {
				case *ast.FuncLit:
					lsig, _ := info.TypeOf(e).(*types.Signature)
					o := own
					if i := c.authIndex(lsig); i >= 0 {
						o = lsig.Params().At(i)
						fns++
					}
					walk(e.Body, o)
					return false
				case *ast.CallExpr:
					if own == nil {
						return true
					}
					csig, _ := info.TypeOf(e.Fun).Underlying().(*types.Signature)
					if csig == nil {
						return true
					}
					for i := 0; i < csig.Params().Len() && i < len(e.Args); i++ {
						if !c.isAuthT(csig.Params().At(i).Type()) {
							continue
						}
						args++
						callee := core.FName(core.Callee(info, e))
						if callee == "" {
							callee = core.ExprStr(e.Fun)
						}
						if core.ObjOf(info, e.Args[i]) == own {
							continue
						}
						if why, ok := c42ConstArgOK[f.Name][callee]; ok && (core.IsNilIdent(info, e.Args[i]) || selObjName8(info, e.Args[i]) == "OpenAuthorizer") {
							r.Ok(rule, f.String(), p.Pos(e.Pos()), "exception "+callee+"("+core.ExprStr(e.Args[i])+"): "+why)
							continue
						}
						r.Bad(rule, f.String(), callee, p.Pos(e.Pos()), "authorizer argument of "+callee+" is `"+core.ExprStr(e.Args[i])+"`, not the function's own authorizer parameter: the callee would authorize with a different (or no) authorizer")
					}
				case *ast.KeyValueExpr:
					if own == nil {
						return true
					}
					if id, ok := e.Key.(*ast.Ident); ok {
						if fv, ok := info.Uses[id].(*types.Var); ok && fv.IsField() && c.isAuthT(fv.Type()) {
							fields++
							r.Check(core.ObjOf(info, e.Value) == own, rule, f.String(), "field:"+fv.Name(), p.Pos(e.Pos()), "authorizer field "+fv.Name()+" is initialised with the function's own authorizer parameter")
						}
					}
				case *ast.AssignStmt:
					if own == nil {
						return true
					}
					for i, l := range e.Lhs {
						if core.ObjOf(info, l) != own {
							continue
						}
						okA := false
						if len(e.Lhs) == len(e.Rhs) && selObjName8(info, e.Rhs[i]) == "OpenAuthorizer" {
							g := f.GraphOf8(e.Pos())
							nilAuth := g.NilFactEdge8(func(y ast.Expr) bool { return core.ObjOf(info, y) == own }, true)
							if n := g.NodeOf(e); n != nil && len(g.Bypassing8([]*core.Node{n}, nilAuth)) == 0 {
								okA = true
							}
						}
						r.Check(okA, rule, f.String(), "auth-reassigned", p.Pos(e.Pos()), "the authorizer parameter is only replaced by OpenAuthorizer where it is nil (same meaning)")
					}
				}
				return true
			})
		}
		walk(f.Decl.Body, outer)
	}
	r.Check(args >= 30 && fns >= 20, rule, tsdbP, "sites:count", "-", fmt.Sprintf("%d authorizer-typed call arguments and %d struct fields examined in %d functions/literals with an authorizer (>= 30 / >= 20 confirmed by reading)", args, fields, fns))
}

func selObjName8(info *types.Info, e ast.Expr) string {
	if o := selObj8(info, e); o != nil {
		return o.Name()
	}
	return ""
}

// ---------------------------------------------------------------- (2) gate summaries

func c42Positive(c *c42ctx) {
	p := c.p
	names := func(m map[string]int) []string {
		var out []string
		for n := range m {
			out = append(out, n)
		}
		sort.Strings(out)
		return out
	}
	var units []*c42unit
	for _, n := range names(c42Bool) {
		if f := p.Func(tsdbP, n); f != nil {
			u := c.funcUnit(f)
			u.checkBool(c42Bool[n])
			units = append(units, u)
		}
	}
	for _, n := range names(c42Prod) {
		if f := p.Func(tsdbP, n); f != nil {
			u := c.funcUnit(f)
			u.checkProd(c42Prod[n])
			units = append(units, u)
		}
	}
	// literals used as gates (discovered above), and every literal with its own authorizer parameter
	done := map[*ast.FuncLit]bool{}
	lits := 0
	for round := 0; round < 3; round++ {
		for _, u := range units {
			if u.lit != nil {
				continue
			}
			ast.Inspect(u.f.Decl.Body, func(x ast.Node) bool {
				fl, ok := x.(*ast.FuncLit)
				if !ok || done[fl] {
					return true
				}
				sig, _ := u.info().TypeOf(fl).(*types.Signature)
				own := c.authIndex(sig) >= 0
				if !own && !c.litUnits[fl] {
					return true
				}
				done[fl] = true
				if sig.Results().Len() == 0 || !isBool8(sig.Results().At(0).Type()) {
					c.r.Bad("authorized-positive", "tsdb."+u.name, "literal-with-auth", c.p.Pos(fl.Pos()), "function literal with an authorizer whose first result is not bool: no summary form")
					return true
				}
				lu := c.litUnit(u.f, fl, u.auth)
				lu.checkBool(1)
				lits++
				return true
			})
		}
	}
	c.r.Check(lits >= 5, "authorized-positive", tsdbP, "literals:count", "-", fmt.Sprintf("%d authorizing function literals verified (>= 5 confirmed by reading: 4 in measurementNamesByTagPredicate, 1 in measurementHasTagValueRegex)", lits))
}

// ---------------------------------------------------------------- (3) deferred authorization

func c42Deferred(c *c42ctx) {
	const rule = "deferred-authorization"
	p, r := c.p, c.r
	tp := p.Pkg(tsdbP)
	fValues := core.LookupField(tp.Types, "tagValues", "values")
	fKeys := core.LookupField(tp.Types, "tagValues", "keys")
	if !r.Check(fValues != nil && fKeys != nil, "anchor", "tsdb.tagValues.values", "unresolved", "-", "fields resolved") {
		return
	}
	if f := r.Need(p, tsdbP, "Store.TagValues"); f != nil {
		info := f.Info()
		u := c.funcUnit(f)
		prod := p.Func(tsdbP, "IndexSet.MeasurementTagKeyValuesByExpr")
		stores, fromProd := 0, 0
		ast.Inspect(f.Decl.Body, func(n ast.Node) bool {
			as, ok := n.(*ast.AssignStmt)
			if !ok {
				return true
			}
			for i, l := range as.Lhs {
				b := ast.Unparen(l)
				for {
					if ix, ok := b.(*ast.IndexExpr); ok {
						b = ast.Unparen(ix.X)
						continue
					}
					break
				}
				if core.FieldOf(info, b) != fValues {
					continue
				}
				stores++
				var rhs ast.Expr
				if len(as.Lhs) == len(as.Rhs) {
					rhs = as.Rhs[i]
				} else if len(as.Rhs) == 1 && i == 0 {
					rhs = as.Rhs[0]
				}
				okS := false
				if cx, isCall := ast.Unparen(rhs).(*ast.CallExpr); isCall && prod != nil && core.Callee(info, cx) == prod.Obj && u.prodCall(cx) {
					okS, fromProd = true, fromProd+1
				} else if rhs != nil {
					// compaction: the right-hand side only mentions .values itself (and indices)
					okS = true
					ast.Inspect(rhs, func(m ast.Node) bool {
						switch y := m.(type) {
						case *ast.SelectorExpr:
							if fv := core.FieldOf(info, y); fv != nil && fv != fValues {
								okS = false
							}
						case *ast.CallExpr:
							okS = false
						}
						return true
					})
					if okS {
						okS = mentionsField8(info, rhs, fValues)
					}
				}
				r.Check(okS, rule, f.String(), "values-store", p.Pos(as.Pos()), "tagValues.values is assigned from MeasurementTagKeyValuesByExpr(auth, …) or compacted from itself")
			}
			return true
		})
		r.Check(stores >= 3 && fromProd == 1, rule, f.String(), "values-stores:count", f.Pos(), fmt.Sprintf("%d store(s) to tagValues.values, %d from the authorizing producer (>= 3 / 1 confirmed by reading)", stores, fromProd))
		g := f.Graph()
		// the returned list: appended only with makeTagValues(r) results, r ranging over the group list,
		// whose appends carry the tagValues struct variable
		var retVar types.Object
		for _, x := range g.SuccessExits() {
			if rs, ok := x.N.(*ast.ReturnStmt); ok && len(rs.Results) == 2 {
				if o := core.ObjOf(info, rs.Results[0]); o != nil && !core.IsNilIdent(info, rs.Results[0]) {
					retVar = o
				}
			}
		}
		okChain := retVar != nil
		nApp := 0
		if okChain {
			for _, s := range u.sitesOf(retVar) {
				switch {
				case s.selfAp:
					nApp++
					for _, e := range s.elems {
						ev := core.ObjOf(info, e)
						srcOK := false
						if ev != nil {
							for _, a := range core.AssignsTo8(info, f.Decl.Body, ev) {
								if cx, ok := a.Rhs.(*ast.CallExpr); ok && core.FName(core.Callee(info, cx)) == "tsdb.makeTagValues" {
									srcOK = true
								}
							}
						}
						if !srcOK {
							okChain = false
						}
					}
				case s.decl:
				default:
					if cx, ok := ast.Unparen(s.rhs).(*ast.CallExpr); !ok || !core.Builtin("make")(info, cx) {
						okChain = false
					}
				}
			}
		}
		r.Check(okChain && nApp >= 1, rule, f.String(), "result-source", f.Pos(), "the returned []TagValues is built only from makeTagValues(group) results")
		// anti-vacuity for the producer call
		r.Check(u.countUses() >= 1, rule, f.String(), "producer:absent", f.Pos(), "MeasurementTagKeyValuesByExpr is called with the own authorizer")
	}
	if f := r.Need(p, tsdbP, "makeTagValues"); f != nil {
		info := f.Info()
		g := f.Graph()
		// every append happens inside `for _, value := range tv.values[ki]` nested in `for ki, key := range tv.keys`
		var outer, inner *ast.RangeStmt
		ast.Inspect(f.Decl.Body, func(n ast.Node) bool {
			rs, ok := n.(*ast.RangeStmt)
			if !ok {
				return true
			}
			if core.FieldOf(info, rs.X) == fKeys {
				outer = rs
			}
			if ix, ok := ast.Unparen(rs.X).(*ast.IndexExpr); ok && core.FieldOf(info, ix.X) == fValues {
				inner = rs
			}
			return true
		})
		okLoops := outer != nil && inner != nil && outer.Key != nil && outer.Value != nil && inner.Value != nil &&
			outer.Body.Pos() <= inner.Pos() && inner.End() <= outer.Body.End()
		if r.Check(okLoops, rule, f.String(), "loops", f.Pos(), "iterates keys and, nested, the values of the same index") {
			ix := ast.Unparen(inner.X).(*ast.IndexExpr)
			r.Check(core.ObjOf(info, ix.Index) == core.ObjOf(info, outer.Key), rule, f.String(), "index-mismatch", p.Pos(inner.Pos()), "values are taken at the key's own index")
			apps := core.AllCalls(info, f.Decl.Body, core.Builtin("append"))
			okApp := len(apps) >= 1
			for _, a := range apps {
				if !(inner.Body.Pos() <= a.Pos() && a.End() <= inner.Body.End()) {
					okApp = false
					continue
				}
				// KeyValue{Key: key, Value: value}
				if len(a.Args) != 2 {
					okApp = false
					continue
				}
				cl, ok := ast.Unparen(a.Args[1]).(*ast.CompositeLit)
				if !ok {
					okApp = false
					continue
				}
				got := map[string]types.Object{}
				for _, el := range cl.Elts {
					if kv, ok := el.(*ast.KeyValueExpr); ok {
						if id, ok := kv.Key.(*ast.Ident); ok {
							got[id.Name] = core.ObjOf(info, kv.Value)
						}
					}
				}
				if got["Key"] != core.ObjOf(info, outer.Value) || got["Value"] != core.ObjOf(info, inner.Value) || got["Key"] == nil {
					okApp = false
				}
			}
			r.Check(okApp, rule, f.String(), "pair-source", f.Pos(), "a KeyValue is appended only per element of values[ki], with that key and that value")
		}
		_ = g
	}
	// the iterator created by MeasurementSeriesKeyByExprIterator
	fAuth := core.LookupField(tp.Types, "measurementSeriesKeyByExprIterator", "auth")
	if f := r.Need(p, tsdbP, "measurementSeriesKeyByExprIterator.Next"); f != nil && r.Check(fAuth != nil, "anchor", "tsdb.measurementSeriesKeyByExprIterator.auth", "unresolved", "-", "field resolved") {
		g := f.Graph()
		info := f.Info()
		gate := core.ImpliesEdge8(func(x ast.Expr, val bool) bool {
			if cx, ok := x.(*ast.CallExpr); ok && val && core.FName(core.Callee(info, cx)) == "influxql/query.Authorizer.AuthorizeSeriesRead" {
				if se, ok := ast.Unparen(cx.Fun).(*ast.SelectorExpr); ok && core.FieldOf(info, se.X) == fAuth {
					return true
				}
			}
			if y, nonNilOnTrue, ok := core.NilTest(info, x); ok && core.FieldOf(info, y) == fAuth {
				return (val == nonNilOnTrue) == false
			}
			return false
		})
		keyRet := func(n *core.Node) bool {
			rs, ok := n.N.(*ast.ReturnStmt)
			return ok && len(rs.Results) == 2 && !core.IsNilIdent(info, rs.Results[0])
		}
		core.RuleOnlyVia8(r, f, g, rule, "key-return", "itr.auth == nil or itr.auth.AuthorizeSeriesRead(…)", keyRet, gate, 1)
	}
}

func mentionsField8(info *types.Info, e ast.Expr, fv *types.Var) bool {
	found := false
	ast.Inspect(e, func(n ast.Node) bool {
		if se, ok := n.(*ast.SelectorExpr); ok && core.FieldOf(info, se) == fv {
			found = true
		}
		return true
	})
	return found
}

// ---------------------------------------------------------------- (4) sorted

func c42Sorted(c *c42ctx) {
	const rule = "sorted"
	p, r := c.p, c.r
	bsort := call("pkg/bytesutil.Sort", "pkg/bytesutil.SortDedup")
	mk := call("tsdb.newFileMeasurementSliceIterator")
	for _, n := range []string{"IndexSet.measurementNamesByNameFilter", "IndexSet.measurementNamesByTagFilter", "IndexSet.measurementNamesByTagPredicate"} {
		f := r.Need(p, tsdbP, n)
		if f == nil {
			continue
		}
		info := f.Info()
		if !core.RulePrecede(r, f, rule, "bytesutil.Sort", bsort, "newFileMeasurementSliceIterator", mk) {
			continue
		}
		// the slice sorted is the slice handed to the iterator, and nothing is appended in between
		var sorted, used types.Object
		for _, cx := range core.AllCalls(info, f.Decl.Body, bsort) {
			sorted = core.ObjOf(info, cx.Args[0])
		}
		for _, cx := range core.AllCalls(info, f.Decl.Body, mk) {
			used = core.ObjOf(info, cx.Args[0])
		}
		okSame := sorted != nil && sorted == used
		if okSame {
			g := f.Graph()
			for _, sn := range g.Select(g.Calling(bsort)) {
				for x := range g.Reach(core.After(sn, nil), nil, nil) {
					if as, ok := x.N.(*ast.AssignStmt); ok {
						for _, l := range as.Lhs {
							if core.ObjOf(info, l) == sorted {
								okSame = false
							}
						}
					}
				}
			}
		}
		r.Check(okSame, rule, f.String(), "sorted-slice", f.Pos(), "the sorted slice is the one published, unmodified after the sort")
	}
	for _, n := range []string{"IndexSet.measurementNamesByExpr", "IndexSet.measurementNamesByPredicate"} {
		f := r.Need(p, tsdbP, n)
		if f == nil {
			continue
		}
		info := f.Info()
		cs := core.AllCalls(info, f.Decl.Body, mk)
		ok := len(cs) >= 2
		for _, cx := range cs {
			inner, isCall := ast.Unparen(cx.Args[0]).(*ast.CallExpr)
			if !isCall || !c42Merge[core.FName(core.Callee(info, inner))] {
				ok = false
			}
		}
		r.Check(ok, rule, f.String(), "merge", f.Pos(), fmt.Sprintf("AND/OR results are built with bytesutil.Union/Intersect (%d site(s)): sorted operands stay sorted and duplicate-free", len(cs)))
	}
	ssort := call("sort.Strings")
	if f := r.Need(p, tsdbP, "Store.TagKeys"); f != nil {
		g := f.Graph()
		info := f.Info()
		// results appends preceded by sort.Strings
		var res types.Object
		for _, x := range g.SuccessExits() {
			if rs, ok := x.N.(*ast.ReturnStmt); ok && len(rs.Results) == 2 {
				if o := core.ObjOf(info, rs.Results[0]); o != nil && !core.IsNilIdent(info, rs.Results[0]) {
					res = o
				}
			}
		}
		apps := g.Select(func(n *core.Node) bool {
			as, ok := n.N.(*ast.AssignStmt)
			return ok && len(as.Lhs) == 1 && res != nil && core.ObjOf(info, as.Lhs[0]) == res && len(core.CallsIn(info, as, core.Builtin("append"), core.WalkOpts{})) > 0
		})
		if r.Check(len(apps) >= 2, rule, f.String(), "result-appends:absent", f.Pos(), fmt.Sprintf("%d appends to the result list (>= 2 confirmed by reading)", len(apps))) {
			reach := g.ReachFromEntry(g.Calling(ssort), nil)
			bad := false
			for _, a := range apps {
				// the sort must happen in the same iteration: from the loop's name binding
				if reach[a] {
					bad = true
				}
			}
			r.Check(!bad, rule, f.String(), "unsorted-keys", g.Line(apps[0]), "every group is appended after sort.Strings of its keys")
			// per iteration: from each append, the next append is not reachable without a sort
			for _, a := range apps {
				nx := g.Reach(core.After(a, nil), g.Calling(ssort), nil)
				for _, b := range apps {
					if nx[b] {
						bad = true
					}
				}
			}
			r.Check(!bad, rule, f.String(), "unsorted-keys-next-group", g.Line(apps[0]), "between two groups a fresh sort.Strings happens")
		}
		c42KeysSortedArg(c, f)
	}
	if f := r.Need(p, tsdbP, "Store.TagValues"); f != nil {
		c42KeysSortedArg(c, f)
		// the sort of the groups precedes building the result
		core.RulePrecede(r, f, rule, "sort.Sort", call("sort.Sort"), "makeTagValues", call("tsdb.makeTagValues"))
	}
	if f := r.Need(p, tsdbP, "IndexSet.MeasurementTagKeyValuesByExpr"); f != nil {
		g := f.Graph()
		info := f.Info()
		sig := f.Obj.Type().(*types.Signature)
		var keys, flag types.Object
		if sig.Params().Len() == 5 {
			keys, flag = sig.Params().At(2), sig.Params().At(4)
		}
		// every use of keys in a call that relies on order (tagValuesByKeyAndExpr) is reached via sort.Strings(keys) or keysSorted==true
		sortKeys := func(n *core.Node) bool {
			for _, cx := range core.CallsIn(info, n.N, ssort, core.WalkOpts{}) {
				if core.ObjOf(info, cx.Args[0]) == keys && keys != nil {
					return true
				}
			}
			return false
		}
		isSorted := core.ImpliesEdge8(func(x ast.Expr, val bool) bool { return val && flag != nil && core.ObjOf(info, x) == flag })
		reach := g.ReachFromEntry(sortKeys, isSorted)
		users := g.Select(g.Calling(call("tsdb.IndexSet.tagValuesByKeyAndExpr")))
		bad := len(users) == 0
		for _, un := range users {
			if reach[un] {
				bad = true
			}
		}
		r.Check(!bad, rule, f.String(), "keys-unsorted", f.Pos(), "tagValuesByKeyAndExpr (which relies on ascending keys) is reached only after sort.Strings(keys) or with keysSorted")
		// values of the expression path are sorted before being stored into results
		var valuesVar types.Object
		store := g.Select(func(n *core.Node) bool {
			as, ok := n.N.(*ast.AssignStmt)
			if !ok || len(as.Lhs) != 1 || len(as.Rhs) != 1 {
				return false
			}
			if _, isIx := ast.Unparen(as.Lhs[0]).(*ast.IndexExpr); !isIx {
				return false
			}
			o := core.ObjOf(info, as.Rhs[0])
			if o == nil {
				return false
			}
			valuesVar = o
			return true
		})
		if r.Check(len(store) == 1 && valuesVar != nil, rule, f.String(), "values-store:absent", f.Pos(), "the value set of a key is stored into the result") {
			sortVals := func(n *core.Node) bool {
				for _, cx := range core.CallsIn(info, n.N, ssort, core.WalkOpts{}) {
					if core.ObjOf(info, cx.Args[0]) == valuesVar {
						return true
					}
				}
				return false
			}
			// from the last append to values, the store is reached only through the sort
			bad := false
			for _, an := range g.Select(func(n *core.Node) bool {
				as, ok := n.N.(*ast.AssignStmt)
				return ok && len(as.Lhs) == 1 && core.ObjOf(info, as.Lhs[0]) == valuesVar && len(core.CallsIn(info, as, core.Builtin("append"), core.WalkOpts{})) > 0
			}) {
				if g.Reach(core.After(an, nil), sortVals, nil)[store[0]] {
					bad = true
				}
			}
			r.Check(!bad && len(g.Select(sortVals)) >= 1, rule, f.String(), "values-unsorted", g.Line(store[0]), "values collected from the (unordered) set are sorted before they are published")
		}
	}
}

// c42KeysSortedArg: a call passing the constant true for keysSorted is reached only after sort.Strings of the keys argument.
func c42KeysSortedArg(c *c42ctx, f *core.Func) {
	const rule = "sorted"
	g := f.Graph()
	info := f.Info()
	target := call("tsdb.IndexSet.MeasurementTagKeyValuesByExpr")
	n := 0
	for _, cn := range g.Select(g.Calling(target)) {
		for _, cx := range core.CallsIn(info, cn.N, target, core.WalkOpts{}) {
			if len(cx.Args) != 5 || !core.IsConstBool8(info, cx.Args[4], true) {
				continue
			}
			n++
			keysArg := cx.Args[2]
			sortSame := func(x *core.Node) bool {
				for _, sc := range core.CallsIn(info, x.N, call("sort.Strings"), core.WalkOpts{}) {
					if core.ExprStr(sc.Args[0]) == core.ExprStr(keysArg) && sameRoot8(info, sc.Args[0], keysArg) {
						return true
					}
				}
				return false
			}
			reach := g.ReachFromEntry(sortSame, nil)
			c.r.Check(!reach[cn], rule, f.String(), "keysSorted-without-sort", g.Line(cn), "MeasurementTagKeyValuesByExpr(…, keysSorted=true) is reached only after sort.Strings of the same keys")
		}
	}
	c.r.Check(n >= 1, rule, f.String(), "keysSorted-call:absent", f.Pos(), fmt.Sprintf("%d call(s) with keysSorted=true", n))
}

// sameRoot8: both expressions are the same variable or the same field path of the same variable.
func sameRoot8(info *types.Info, a, b ast.Expr) bool {
	a, b = ast.Unparen(a), ast.Unparen(b)
	switch x := a.(type) {
	case *ast.Ident:
		return core.ObjOf(info, x) != nil && core.ObjOf(info, x) == core.ObjOf(info, b)
	case *ast.SelectorExpr:
		y, ok := b.(*ast.SelectorExpr)
		return ok && core.FieldOf(info, x) != nil && core.FieldOf(info, x) == core.FieldOf(info, y) && sameRoot8(info, x.X, y.X)
	}
	return false
}

// ---------------------------------------------------------------- (5) live-only

func c42Live(c *c42ctx) {
	const rule = "live-only"
	p, r := c.p, c.r
	filter := call("tsdb.FilterUndeletedSeriesIDIterator")
	asr := call("influxql/query.Authorizer.AuthorizeSeriesRead")
	n := 0
	for _, name := range []string{
		"IndexSet.measurementAuthorizedSeries", "IndexSet.measurementHasTagValue", "IndexSet.measurementHasEmptyTagValue",
		"IndexSet.measurementHasTagValueRegex", "IndexSet.TagKeyHasAuthorizedSeries", "IndexSet.measurementNamesByTagFilter",
		"IndexSet.MeasurementTagKeyValuesByExpr", "IndexSet.tagValuesByKeyAndExpr",
	} {
		f := r.Need(p, tsdbP, name)
		if f == nil {
			continue
		}
		found := false
		for _, g := range f.Graphs() {
			as := g.Select(g.Calling(asr))
			// only direct nodes of this graph (Calling looks through in-place literals; skip if the call sits in a nested literal graph)
			var direct []*core.Node
			for _, a := range as {
				isDirect := false
				for _, cx := range core.CallsIn(g.Info, a.N, asr, core.WalkOpts{}) {
					inLit := false
					ast.Inspect(a.N, func(x ast.Node) bool {
						if fl, ok := x.(*ast.FuncLit); ok && fl.Body.Pos() <= cx.Pos() && cx.End() <= fl.Body.End() {
							inLit = true
						}
						return true
					})
					if !inLit {
						isDirect = true
					}
				}
				if isDirect {
					direct = append(direct, a)
				}
			}
			if len(direct) == 0 {
				continue
			}
			found = true
			reach := g.ReachFromEntry(g.Calling(filter), nil)
			if g.Body != f.Decl.Body {
				// a local closure: the wrapping may have happened in the enclosing function before the
				// closure was created (the loop was merely extracted into `find := func() …`)
				pg := f.Graph()
				var litNode *core.Node
				ast.Inspect(f.Decl.Body, func(x ast.Node) bool {
					if fl, ok := x.(*ast.FuncLit); ok && fl.Body == g.Body {
						litNode = pg.NodeOf(fl)
					}
					return true
				})
				if litNode != nil && !pg.ReachFromEntry(pg.Calling(filter), nil)[litNode] {
					reach = map[*core.Node]bool{}
				}
			}
			bad := false
			for _, a := range direct {
				if reach[a] {
					bad = true
				}
			}
			n++
			r.Check(!bad, rule, f.String(), "authorize-unfiltered", g.Line(direct[0]), "series are offered to AuthorizeSeriesRead only after FilterUndeletedSeriesIDIterator wrapped the iterator (deleted series cannot make a name visible)")
		}
		r.Check(found, rule, f.String(), "AuthorizeSeriesRead:absent", f.Pos(), "the function authorizes individual series")
	}
	// the filter's result replaces the iterator that is consumed
	for _, name := range []string{"IndexSet.measurementAuthorizedSeries", "IndexSet.TagKeyHasAuthorizedSeries"} {
		f := p.Func(tsdbP, name)
		if f == nil {
			continue
		}
		info := f.Info()
		ok := false
		ast.Inspect(f.Decl.Body, func(x ast.Node) bool {
			if as, isAs := x.(*ast.AssignStmt); isAs && len(as.Lhs) == 1 && len(as.Rhs) == 1 {
				if cx, isCall := as.Rhs[0].(*ast.CallExpr); isCall && filter(info, cx) && len(cx.Args) == 2 && core.ObjOf(info, as.Lhs[0]) == core.ObjOf(info, cx.Args[1]) && core.ObjOf(info, as.Lhs[0]) != nil {
					ok = true
				}
			}
			return true
		})
		r.Check(ok, rule, f.String(), "filter-result-unused", f.Pos(), "itr = FilterUndeletedSeriesIDIterator(sfile, itr): the filtered iterator is the one consumed")
	}
	r.Check(n >= 8, rule, tsdbP, "sites:count", "-", fmt.Sprintf("%d authorization loops examined (>= 8 confirmed by reading)", n))
}

// ---------------------------------------------------------------- (6) executor

func c42Executor(c *c42ctx) {
	const rule = "executor"
	p, r := c.p, c.r
	qp := p.Pkg(queryPk8)
	fAuth := core.LookupField(qp.Types, "ExecutionContext", "Authorizer")
	if fAuth == nil {
		// embedded through ExecutionOptions
		fAuth = core.LookupField(qp.Types, "ExecutionOptions", "Authorizer")
	}
	if !r.Check(fAuth != nil, "anchor", queryPk8+".ExecutionOptions.Authorizer", "unresolved", "-", "field resolved") {
		return
	}
	for _, t := range []struct{ fn, callee, rows string }{
		{"StatementExecutor.executeShowMeasurementsStatement", "v1/coordinator.TSDBStore.MeasurementNames", ""},
		{"StatementExecutor.executeShowTagKeys", "v1/coordinator.TSDBStore.TagKeys", "Keys"},
		{"StatementExecutor.executeShowTagValues", "v1/coordinator.TSDBStore.TagValues", "Values"},
	} {
		f := r.Need(p, coordPk8, t.fn)
		if f == nil {
			continue
		}
		info := f.Info()
		g := f.Graph()
		cs := core.AllCalls(info, f.Decl.Body, call(t.callee))
		if !r.Check(len(cs) == 1, rule, f.String(), t.callee+":absent", f.Pos(), "one call of "+t.callee) {
			continue
		}
		var ectx types.Object
		sig := f.Obj.Type().(*types.Signature)
		for i := 0; i < sig.Params().Len(); i++ {
			if pt, ok := sig.Params().At(i).Type().(*types.Pointer); ok {
				if nt, ok := pt.Elem().(*types.Named); ok && nt.Obj().Name() == "ExecutionContext" {
					ectx = sig.Params().At(i)
				}
			}
		}
		okA := false
		if len(cs[0].Args) >= 2 {
			if se, ok := ast.Unparen(cs[0].Args[1]).(*ast.SelectorExpr); ok && core.FieldOf(info, se) == fAuth && core.ObjOf(info, se.X) == ectx && ectx != nil {
				okA = true
			}
		}
		r.Check(okA, rule, f.String(), "authorizer-arg", p.Pos(cs[0].Pos()), "the store is queried with ectx.Authorizer of this execution context")
		if t.rows == "" {
			continue
		}
		// rows: the list sliced from m.<rows>; a row is built only where len(list) != 0
		var list types.Object
		ast.Inspect(f.Decl.Body, func(n ast.Node) bool {
			if as, ok := n.(*ast.AssignStmt); ok && as.Tok == token.DEFINE && len(as.Lhs) == 1 && len(as.Rhs) == 1 {
				if se, ok := ast.Unparen(as.Rhs[0]).(*ast.SelectorExpr); ok && se.Sel.Name == t.rows {
					list = core.ObjOf(info, as.Lhs[0])
				}
			}
			return true
		})
		nonEmpty := core.ImpliesEdge8(func(x ast.Expr, val bool) bool {
			cm, ok := core.CmpOf8(core.Fact8{X: x, Val: val})
			if !ok {
				return false
			}
			lc, isCall := cm.L.(*ast.CallExpr)
			if !isCall || !core.Builtin("len")(info, lc) || core.ObjOf(info, lc.Args[0]) != list || list == nil {
				return false
			}
			k, isC := core.IntConst8(info, cm.R)
			return isC && constant.Sign(k) == 0 && (cm.Op == token.NEQ || cm.Op == token.GTR)
		})
		rowBuild := func(n *core.Node) bool {
			found := false
			if n.N == nil {
				return false
			}
			ast.Inspect(n.N, func(x ast.Node) bool {
				if cl, ok := x.(*ast.CompositeLit); ok {
					if nt, ok := info.TypeOf(cl).(*types.Named); ok && nt.Obj().Name() == "Row" && nt.Obj().Pkg() != nil && strings.HasSuffix(nt.Obj().Pkg().Path(), "/models") {
						found = true
					}
				}
				return true
			})
			return found
		}
		core.RuleOnlyVia8(r, f, g, rule, "row", "len("+t.rows+") != 0", rowBuild, nonEmpty, 1)
	}
}
