package rules

import (
	"fmt"
	"go/ast"
	"go/token"
	"math/rand"
	"os"
	"sort"
	"strconv"
	"sync"

	"verif/checker/core"
)

// Thorough tier, part 2: systematic fault enumeration against the rule set.
//
// For every function the property's rules analysed, generic single-site faults are
// generated from the AST (delete a call statement, negate a branch condition,
// swap && and ||, weaken/strengthen a comparison, drop a deferred call, make an
// error return report success). Each fault is applied IN MEMORY (go/packages
// overlay), the tree is re-type-checked (faults that do not compile are
// discarded) and the property's rules are re-run: a fault is "killed" when the
// rules report an obligation they did not report on the unchanged tree.
//
// The result is a sensitivity measurement written to the evidence file (kill
// rate and the list of survivors); it never makes the check fail: many faults
// are equivalent or touch code the property does not depend on (logging,
// metrics), and the rules are necessary conditions, not a complete specification.

type mutSite struct {
	fn          *core.Func
	file        string
	start, end  int // byte offsets
	replacement string
	kind        string
	pos         token.Pos
}

func collectMutSites(p *core.Prog, f *core.Func) []mutSite {
	var out []mutSite
	tf := p.Fset.File(f.Decl.Pos())
	if tf == nil {
		return nil
	}
	src, err := p.Source(tf.Name())
	if err != nil {
		return nil
	}
	off := func(pos token.Pos) int { return tf.Offset(pos) }
	text := func(n ast.Node) string { return string(src[off(n.Pos()):off(n.End())]) }
	add := func(n ast.Node, repl, kind string) {
		out = append(out, mutSite{fn: f, file: tf.Name(), start: off(n.Pos()), end: off(n.End()), replacement: repl, kind: kind, pos: n.Pos()})
	}
	info := f.Info()
	var condOps func(e ast.Expr)
	condOps = func(e ast.Expr) {
		switch x := ast.Unparen(e).(type) {
		case *ast.BinaryExpr:
			opPos := x.OpPos
			swap := map[token.Token]string{token.LAND: "||", token.LOR: "&&", token.LSS: "<=", token.LEQ: "<", token.GTR: ">=", token.GEQ: ">", token.EQL: "!=", token.NEQ: "=="}
			if r, ok := swap[x.Op]; ok {
				out = append(out, mutSite{fn: f, file: tf.Name(), start: off(opPos), end: off(opPos) + len(x.Op.String()), replacement: r, kind: "op " + x.Op.String() + "→" + r, pos: opPos})
			}
			if x.Op == token.LAND || x.Op == token.LOR {
				condOps(x.X)
				condOps(x.Y)
			}
		}
	}
	ast.Inspect(f.Decl.Body, func(n ast.Node) bool {
		switch s := n.(type) {
		case *ast.ExprStmt:
			if c, ok := s.X.(*ast.CallExpr); ok {
				if core.Builtin("panic")(info, c) {
					return true
				}
				add(s, "{}", "delete call "+core.Trim(core.ExprStr(c.Fun), 40))
			}
		case *ast.DeferStmt:
			add(s, "{}", "delete defer "+core.Trim(core.ExprStr(s.Call.Fun), 40))
		case *ast.IfStmt:
			add(s.Cond, "!("+text(s.Cond)+")", "negate if")
			condOps(s.Cond)
		case *ast.ForStmt:
			if s.Cond != nil {
				condOps(s.Cond)
			}
		case *ast.ReturnStmt:
			// `return …, err` → `return …, nil` for an error-typed last operand that is an identifier
			if len(s.Results) > 0 {
				last := s.Results[len(s.Results)-1]
				if id, ok := ast.Unparen(last).(*ast.Ident); ok && id.Name != "nil" && core.IsErrorType(info.TypeOf(last)) {
					add(last, "nil", "return nil instead of "+id.Name)
				}
			}
		case *ast.AssignStmt:
			// drop a plain (non-defining) assignment to a field: x.f = v
			if s.Tok == token.ASSIGN && len(s.Lhs) == 1 {
				if _, ok := s.Lhs[0].(*ast.SelectorExpr); ok {
					add(s, "{}", "delete store "+core.Trim(core.ExprStr(s.Lhs[0]), 40))
				}
			}
		case *ast.BranchStmt:
			if s.Label == nil && (s.Tok == token.BREAK || s.Tok == token.CONTINUE) {
				other := "continue"
				if s.Tok == token.CONTINUE {
					other = "break"
				}
				add(s, other, s.Tok.String()+"→"+other)
			}
		}
		return true
	})
	return out
}

type mutResult struct {
	site   mutSite
	status string // killed | survived | uncompilable
	by     string
}

// RunMutants enumerates faults for property p. base is the report of the
// unchanged tree (its analysed functions define where faults are injected).
func RunMutants(p *Prop, prog *core.Prog, base *core.Report) map[string]any {
	max := 48
	if v, err := strconv.Atoi(os.Getenv("VERIF_MUTANTS")); err == nil && v >= 0 {
		max = v
	}
	if max == 0 {
		return nil
	}
	seed := int64(1)
	if v, err := strconv.ParseInt(os.Getenv("VERIF_SEED"), 10, 64); err == nil {
		seed = v
	}
	var fns []*core.Func
	for f := range base.FuncObjs {
		if f.Decl != nil && f.Decl.Body != nil {
			fns = append(fns, f)
		}
	}
	sort.Slice(fns, func(i, j int) bool { return fns[i].String() < fns[j].String() })
	var sites []mutSite
	for _, f := range fns {
		sites = append(sites, collectMutSites(prog, f)...)
	}
	total := len(sites)
	rnd := rand.New(rand.NewSource(seed))
	rnd.Shuffle(len(sites), func(i, j int) { sites[i], sites[j] = sites[j], sites[i] })
	if len(sites) > max {
		sites = sites[:max]
	}
	baseKeys := map[string]bool{}
	for _, k := range base.Violations() {
		baseKeys[k] = true
	}
	results := make([]mutResult, len(sites))
	var wg sync.WaitGroup
	sem := make(chan struct{}, 6)
	for i := range sites {
		wg.Add(1)
		sem <- struct{}{}
		go func(i int) {
			defer wg.Done()
			defer func() { <-sem }()
			s := sites[i]
			res := mutResult{site: s, status: "survived"}
			defer func() {
				if e := recover(); e != nil {
					res.status, res.by = "killed", "analysis aborted: "+fmt.Sprint(e)
				}
				results[i] = res
			}()
			src, err := prog.Source(s.file)
			if err != nil {
				res.status = "uncompilable"
				return
			}
			mutated := append(append(append([]byte{}, src[:s.start]...), s.replacement...), src[s.end:]...)
			ov := map[string][]byte{}
			for k, v := range prog.Overlay {
				ov[k] = v
			}
			ov[s.file] = mutated
			mp, err := core.Load(core.LoadOpts{Patterns: p.Patterns, Overlay: ov})
			if err != nil {
				res.status = "uncompilable"
				return
			}
			r := core.NewReport(p.ID, "thorough")
			p.Run(mp, r, "quick")
			for _, k := range r.Violations() {
				if !baseKeys[k] {
					res.status, res.by = "killed", k
					return
				}
			}
		}(i)
	}
	wg.Wait()
	killed, survived, bad := 0, 0, 0
	var samplesK, samplesS []string
	for _, r := range results {
		where := prog.Pos(r.site.pos) + " " + r.site.fn.String() + ": " + r.site.kind
		switch r.status {
		case "killed":
			killed++
			if len(samplesK) < 12 {
				samplesK = append(samplesK, where+"  ⇒ "+r.by)
			}
		case "survived":
			survived++
			samplesS = append(samplesS, where)
		default:
			bad++
		}
	}
	sort.Strings(samplesS)
	rate := 0.0
	if killed+survived > 0 {
		rate = float64(killed) / float64(killed+survived)
	}
	return map[string]any{
		"fault_sites_in_analysed_functions": total,
		"faults_tried":                      len(sites),
		"faults_not_compiling":              bad,
		"faults_killed":                     killed,
		"faults_survived":                   survived,
		"kill_rate":                         rate,
		"killed_samples":                    samplesK,
		"survivors":                         samplesS,
		"operators":                         "delete call/defer/field store, negate if, &&↔||, <↔<=, >↔>=, ==↔!=, return nil instead of err, break↔continue",
		"note":                              "sensitivity measurement only: survivors include equivalent faults and faults in code the property does not depend on; the rules are necessary conditions",
	}
}
