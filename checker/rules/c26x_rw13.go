package rules

import (
	"go/ast"
	"go/token"
	"go/types"

	"verif/checker/core"
)

// C26 extension (rw13): the order of the segment list.
//
// The queue delivers in append order because (a) Queue.segments is ordered by
// the numeric segment id, (b) head is its first and tail its last element and
// (c) a new segment gets the largest id and is appended at the end. After a
// reopen the list is rebuilt from a directory listing, whose order is by file
// NAME (lexicographic: "10" < "9"), so (a) has to be re-established by a sort
// keyed on the numeric id before the list is handed to Open.

func init() {
	extend("C26", "(7) segment-order: Queue.loadSegments hands back the list it accumulated from the directory listing only after sorting that very list ascending by the numeric segment.id "+
		"(sort.Sort/Stable with the type's Less, sort.Slice/SliceStable or slices.SortFunc/SortStableFunc with a literal comparator; the comparator must be `x[i].id < x[j].id` in parameter order), nothing is appended after the sort; "+
		"segment.id is the strconv.ParseUint of the file name; Queue.Open installs exactly that list, takes head from index 0 and tail from index len-1; Queue.addSegment appends the new segment at the end and makes the same segment the tail.",
		nil, func(p *core.Prog, r *core.Report, tier string) { rw13SegmentOrder(p, r) })
}

var (
	rw13SortIface = call("sort.Sort", "sort.Stable")
	rw13SortSlice = call("sort.Slice", "sort.SliceStable")
	rw13SortFunc  = call("slices.SortFunc", "slices.SortStableFunc")
	rw13AnySort   = core.Or(rw13SortIface, rw13SortSlice, rw13SortFunc)
)

// rw13IDOperand decodes one operand of a comparator: `<slice>[<param>].id`
// or `<param>.id`; it returns the parameter that selects the element.
func rw13IDOperand(info *types.Info, e ast.Expr, fID *types.Var) types.Object {
	se, ok := ast.Unparen(e).(*ast.SelectorExpr)
	if !ok || core.FieldOf(info, se) != fID {
		return nil
	}
	switch x := ast.Unparen(se.X).(type) {
	case *ast.IndexExpr:
		return core.ObjOf(info, x.Index)
	case *ast.Ident:
		return core.ObjOf(info, x)
	}
	return nil
}

// rw13AscendingByID: the function body is a single `return A.id < B.id` (or
// `B.id > A.id`) where A is selected by the first and B by the second parameter,
// or, for three-way comparators, `return cmp.Compare(A.id, B.id)`.
func rw13AscendingByID(info *types.Info, ft *ast.FuncType, body *ast.BlockStmt, fID *types.Var, threeWay bool) (bool, string) {
	var params []types.Object
	if ft != nil && ft.Params != nil {
		for _, f := range ft.Params.List {
			for _, n := range f.Names {
				params = append(params, info.Defs[n])
			}
		}
	}
	if len(params) != 2 || params[0] == nil || params[1] == nil || body == nil {
		return false, "the comparator does not have two named parameters"
	}
	var rets []*ast.ReturnStmt
	ast.Inspect(body, func(n ast.Node) bool {
		if _, ok := n.(*ast.FuncLit); ok {
			return false
		}
		if rs, ok := n.(*ast.ReturnStmt); ok {
			rets = append(rets, rs)
		}
		return true
	})
	if len(rets) != 1 || len(rets[0].Results) != 1 || len(body.List) != 1 {
		return false, "the comparator is not a single return of one comparison"
	}
	res := ast.Unparen(rets[0].Results[0])
	if threeWay {
		c, ok := res.(*ast.CallExpr)
		if !ok || !call("cmp.Compare")(info, c) || len(c.Args) != 2 {
			return false, "the three-way comparator is not cmp.Compare(a.id, b.id)"
		}
		if rw13IDOperand(info, c.Args[0], fID) == params[0] && rw13IDOperand(info, c.Args[1], fID) == params[1] {
			return true, ""
		}
		return false, "cmp.Compare does not compare the id of the first with the id of the second parameter"
	}
	be, ok := res.(*ast.BinaryExpr)
	if !ok {
		return false, "the comparator does not return a comparison"
	}
	l, rr := rw13IDOperand(info, be.X, fID), rw13IDOperand(info, be.Y, fID)
	if l == nil || rr == nil {
		return false, "the comparator does not compare segment.id with segment.id (any other key, e.g. the path, orders \"10\" before \"9\")"
	}
	switch {
	case be.Op == token.LSS && l == params[0] && rr == params[1]:
		return true, ""
	case be.Op == token.GTR && l == params[1] && rr == params[0]:
		return true, ""
	}
	return false, "the comparison of the ids is not `first < second` (not a strict ascending order)"
}

func rw13SegmentOrder(p *core.Prog, r *core.Report) {
	const rule = "segment-order"
	pk := p.Pkg(dqPkg)
	if pk == nil {
		return
	}
	fID := core.LookupField(pk.Types, "segment", "id")
	fSegs := core.LookupField(pk.Types, "Queue", "segments")
	fHead := core.LookupField(pk.Types, "Queue", "head")
	fTail := core.LookupField(pk.Types, "Queue", "tail")
	if !r.Check(fID != nil && fSegs != nil && fHead != nil && fTail != nil, "anchor", dqPkg+".segment.id / Queue.{segments,head,tail}", "unresolved", "-", "fields resolved") {
		return
	}
	loadM := call("pkg/durablequeue.Queue.loadSegments")

	// ---- loadSegments: accumulate, sort by id, return
	if f := r.Need(p, dqPkg, "Queue.loadSegments"); f != nil {
		info, g, name := f.Info(), f.Graph(), f.String()
		// the listing and the loop over it
		var listing types.Object
		for _, n := range g.Select(g.Calling(call("os.ReadDir", "io/ioutil.ReadDir", "os.File.Readdir", "os.File.ReadDir", "os.File.Readdirnames", "path/filepath.Glob"))) {
			if as, ok := n.N.(*ast.AssignStmt); ok && len(as.Lhs) >= 1 {
				listing = core.ObjOf(info, as.Lhs[0])
			}
		}
		var loop *rw3Loop
		for _, s := range rw3TopLoops(f.Decl.Body) {
			if rs, ok := s.(*ast.RangeStmt); ok && listing != nil && core.ObjOf(info, rs.X) == listing {
				loop = rw3FindLoop(g, rs)
			}
		}
		if !r.Check(loop != nil, rule, name, "listing-loop:absent", f.Pos(), "the segments are collected in a loop over a directory listing (ordered by file name, not by numeric id)") {
			return
		}
		// the accumulator: the variable appended to inside that loop
		var acc types.Object
		isAppend := func(n *core.Node) bool {
			if n.N == nil {
				return false
			}
			as, ok := n.N.(*ast.AssignStmt)
			if !ok || len(as.Lhs) != 1 {
				return false
			}
			o := core.ObjOf(info, as.Lhs[0])
			if o == nil || (acc != nil && o != acc) {
				return false
			}
			return rw3AppendTo(info, n.N, func(e ast.Expr) bool { return core.ObjOf(info, e) == o }) != nil
		}
		for _, n := range g.Nodes {
			if loop.In(n) && isAppend(n) {
				acc = core.ObjOf(info, n.N.(*ast.AssignStmt).Lhs[0])
				break
			}
		}
		if !r.Check(acc != nil, rule, name, "accumulator:absent", f.Pos(), "loaded segments are appended to a local list") {
			return
		}
		// sorts of that list
		sortsAcc := func(info *types.Info, c *ast.CallExpr) bool {
			return rw13AnySort(info, c) && len(c.Args) >= 1 && core.ObjOf(info, core.StripConv(info, c.Args[0])) == acc
		}
		isSort := g.Calling(sortsAcc)
		sorts := g.Select(isSort)
		unsorted := g.ReachFromEntry(isSort, nil)
		nret := 0
		for _, x := range g.SuccessExits() {
			rs, ok := x.N.(*ast.ReturnStmt)
			if !ok || len(rs.Results) != 2 {
				r.Bad(rule, name, "return-form", g.Line(x), "a success exit is not `return list, nil`")
				continue
			}
			if core.IsNilIdent(info, rs.Results[0]) {
				continue // nothing loaded
			}
			nret++
			if !r.Check(core.ObjOf(info, rs.Results[0]) == acc, rule, name, "returned-list", g.Line(x), "the list returned on success is the accumulated one") {
				continue
			}
			r.Check(!unsorted[x], rule, name, "unsorted-return", g.Line(x),
				"the list built in directory-listing order (file names: \"10\" sorts before \"9\") is returned only after it was sorted by the numeric segment id; otherwise a reopened queue takes a newer segment as head and an older one as tail")
		}
		r.Check(nret >= 1, rule, name, "success-return:absent", f.Pos(), "a success exit returning the list exists")
		for _, s := range sorts {
			for n := range g.Reach(core.After(s, nil), nil, nil) {
				if isAppend(n) {
					r.Bad(rule, name, "append-after-sort", g.Line(n), "a segment is appended to the list after it was sorted")
				}
			}
			// the ordering key
			for _, c := range core.CallsIn(info, s.N, sortsAcc, core.WalkOpts{}) {
				okKey, why := false, "comparator not found"
				switch {
				case rw13SortIface(info, c):
					nt := rw3Named(info.TypeOf(c.Args[0]))
					if nt != nil {
						for i := 0; i < nt.NumMethods(); i++ {
							if m := nt.Method(i); m.Name() == "Less" {
								if lf := p.FuncOf(m); lf != nil {
									okKey, why = rw13AscendingByID(lf.Info(), lf.Decl.Type, lf.Decl.Body, fID, false)
									r.Saw(lf)
								}
							}
						}
					}
				case rw13SortSlice(info, c) && len(c.Args) == 2:
					if fl, ok := ast.Unparen(c.Args[1]).(*ast.FuncLit); ok {
						okKey, why = rw13AscendingByID(info, fl.Type, fl.Body, fID, false)
					} else {
						why = "the less function is not a literal"
					}
				case rw13SortFunc(info, c) && len(c.Args) == 2:
					if fl, ok := ast.Unparen(c.Args[1]).(*ast.FuncLit); ok {
						okKey, why = rw13AscendingByID(info, fl.Type, fl.Body, fID, true)
					} else {
						why = "the comparator is not a literal"
					}
				}
				r.Check(okKey, rule, name, "sort-key", p.Pos(c.Pos()), "the list is sorted ascending by the numeric segment.id"+func() string {
					if why != "" {
						return ": " + why
					}
					return ""
				}())
			}
		}
	}

	// ---- segment.id is the number in the file name
	if f := r.Need(p, dqPkg, "newSegment"); f != nil {
		info := f.Info()
		n, okID := 0, true
		ast.Inspect(f.Decl.Body, func(x ast.Node) bool {
			cl, ok := x.(*ast.CompositeLit)
			if !ok || !rw3IsNamed(info.TypeOf(cl), dqPkg, "segment") {
				return true
			}
			n++
			v := rw3LitField(info, cl, fID)
			if v == nil || rw3SoleCallDef(info, f.Decl.Body, core.ObjOf(info, v), call("strconv.ParseUint"), 0) == nil {
				okID = false
			}
			return true
		})
		r.Check(n >= 1 && okID, rule, f.String(), "id-from-file-name", f.Pos(), "segment.id is the result of strconv.ParseUint (the number encoded in the file name)")
	}

	// ---- Open: install the sorted list, head = first, tail = last
	if f := r.Need(p, dqPkg, "Queue.Open"); f != nil {
		info, g, name := f.Info(), f.Graph(), f.String()
		isSegs := func(e ast.Expr) bool { return core.FieldOf(info, e) == fSegs }
		nstore := 0
		for _, n := range g.Select(g.Assigning(fSegs)) {
			as, ok := n.N.(*ast.AssignStmt)
			if !ok || len(as.Lhs) != 1 || len(as.Rhs) != 1 || !isSegs(as.Lhs[0]) {
				continue
			}
			nstore++
			o := core.ObjOf(info, as.Rhs[0])
			r.Check(o != nil && rw3SoleCallDef(info, f.Decl.Body, o, loadM, 0) != nil, rule, name, "installed-list", g.Line(n), "Queue.segments receives exactly what loadSegments returned")
		}
		r.Check(nstore >= 1, rule, name, "segments-store:absent", f.Pos(), "Open installs the loaded segment list")
		idx := func(e ast.Expr) (ast.Expr, bool) {
			ix, ok := ast.Unparen(e).(*ast.IndexExpr)
			if !ok || !isSegs(ix.X) {
				return nil, false
			}
			return ast.Unparen(ix.Index), true
		}
		isLast := func(e ast.Expr) bool {
			be, ok := e.(*ast.BinaryExpr)
			if !ok || be.Op != token.SUB {
				return false
			}
			if v, ok := rw3Int(info, be.Y); !ok || v != 1 {
				return false
			}
			c, ok := ast.Unparen(be.X).(*ast.CallExpr)
			return ok && core.Builtin("len")(info, c) && len(c.Args) == 1 && isSegs(c.Args[0])
		}
		for _, side := range []struct {
			fv   *types.Var
			what string
			ok   func(ast.Expr) bool
		}{
			{fHead, "head", func(e ast.Expr) bool { v, ok := rw3Int(info, e); return ok && v == 0 }},
			{fTail, "tail", isLast},
		} {
			ns := g.Select(g.Assigning(side.fv))
			if !r.Check(len(ns) >= 1, rule, name, side.what+"-store:absent", f.Pos(), "Open sets Queue."+side.what) {
				continue
			}
			for _, n := range ns {
				as, ok := n.N.(*ast.AssignStmt)
				good := false
				if ok && len(as.Lhs) == 1 && len(as.Rhs) == 1 {
					if ix, ok := idx(as.Rhs[0]); ok && side.ok(ix) {
						good = true
					}
				}
				r.Check(good, rule, name, side.what+"-index", g.Line(n), map[string]string{
					"head": "the head (read side) is the first element of the id-ordered list: Queue.segments[0]",
					"tail": "the tail (append side) is the last element of the id-ordered list: Queue.segments[len(Queue.segments)-1]"}[side.what])
			}
		}
		// the list is installed before head/tail are taken from it
		pre := g.ReachFromEntry(g.Assigning(fSegs), nil)
		for _, n := range g.Select(core.AnyOf(g.Assigning(fHead), g.Assigning(fTail))) {
			r.Check(!pre[n], rule, name, "install<head/tail", g.Line(n), "head and tail are taken after the loaded list was installed")
		}
	}

	// ---- addSegment: new segment goes to the end and becomes the tail
	if f := r.Need(p, dqPkg, "Queue.addSegment"); f != nil {
		info, g, name := f.Info(), f.Graph(), f.String()
		isSegs := func(e ast.Expr) bool { return core.FieldOf(info, e) == fSegs }
		var appended []types.Object
		napp := 0
		for _, n := range g.Select(g.Assigning(fSegs)) {
			args := rw3AppendTo(info, n.N, isSegs)
			if !r.Check(len(args) == 1 && core.ObjOf(info, args[0]) != nil, rule, name, "not-appended", g.Line(n), "the new segment is appended at the end of Queue.segments (it has the largest id)") {
				continue
			}
			napp++
			appended = append(appended, core.ObjOf(info, args[0]))
		}
		r.Check(napp >= 1, rule, name, "append:absent", f.Pos(), "addSegment extends Queue.segments")
		for _, n := range g.Select(g.Assigning(fTail)) {
			as, ok := n.N.(*ast.AssignStmt)
			good := false
			if ok && len(as.Lhs) == 1 && len(as.Rhs) == 1 {
				for _, o := range appended {
					if core.ObjOf(info, as.Rhs[0]) == o {
						good = true
					}
				}
			}
			r.Check(good, rule, name, "tail-is-appended", g.Line(n), "the segment that becomes the tail is the one appended to Queue.segments")
		}
		r.Check(len(g.Select(g.Assigning(fTail))) >= 1, rule, name, "tail-store:absent", f.Pos(), "addSegment moves the tail to the new segment")
		core.RuleMustPassN(r, f, g, rule, "segments-append", g.Assigning(fSegs), nil)
		core.RuleMustPassN(r, f, g, rule, "tail-store", g.Assigning(fTail), nil)
	}
}
