package rules

import (
	"fmt"
	"go/ast"
	"go/token"
	"go/types"
	"sort"

	"verif/checker/core"
)

func init() {
	register(&Prop{
		ID:       "C08",
		Patterns: []string{"./tsdb/engine/tsm1", "./pkg/file"},
		Level:    "other",
		Explanation: "Necessary-condition rules for 'TSM files and tombstones read back what was written; a crash during a tombstone write leaves the old or the new set': " +
			"(1) tombstone-commit: Tombstoner.commit runs gzip.Close < bufio.Flush < File.Sync < RenameFile < SyncDir with every error propagated, clears pendingFile on success; Flush rolls back on every path after a failed commit; rollback removes the temp file and clears the pending state; TSMReader.DeleteRange rolls the batch back when DeleteRange failed and commits otherwise; batchDelete.Commit flushes before it re-applies tombstones and both Commit and Rollback release deleteMu taken by BatchDelete; FileStore.DeleteRange rolls back when the batched delete/commit failed; " +
			"(2) tombstone-header (E4): every header constant a Tombstoner method writes is dispatched on by Walk to the reader of that version (table v2/v3/v4), each header constant is written only by the method whose format it names (v3header by writeTombstoneV3, v4header by prepareV4), prepareV4 only appends to a file whose header is the constant it writes itself; " +
			"(3) tombstone-locks (E2): Tombstoner.tombstones/tombstoneStats/statsLoaded/gz/bw/pendingFile/lastAppliedOffset/tmp only under t.mu (write mode for stores), helper functions checked at their call sites; " +
			"(4) tsm-header: writeHeader emits MagicNumber and Version and sets the file position; tsmWriter.Write/WriteBlock write block bytes only after writeHeader or when t.n != 0; verifyVersion rejects any other magic/version; mmapAccessor.init passes verifyVersion and NewTSMReader passes accessor.init and applyTombstones before it returns a reader; " +
			"(5) tsm-index-offset: the offset recorded by index.Add is t.n and is recorded before t.n advances, t.n advances on every successful block write; WriteIndex captures t.n before writing the index, encodes exactly that value and writes it after the index; only writeHeader/Write/WriteBlock/WriteIndex write to the file buffer.",
		NotCovered:  "indirectIndex search/Seek/KeyAt/entries correctness and tombstone time-range arithmetic (value-level); byte layout of index entries and of tombstone records; that the reader locates the index through the last 8 bytes with the same endianness (expression-level); cleanup of the pending tombstone file when writeTombstoneV3's own commit fails.",
		Assumptions: []string{"os.File.Sync and directory fsync make data durable", "rename is atomic"},
		Run:         runC08,
	})
}

var x2TombLocks = &core.LockRulesX{
	LockRules: core.LockRules{
		Pkg: tsm1,
		Guards: []core.Guard{
			{Type: "Tombstoner", Fields: []string{"tombstones", "tombstoneStats", "statsLoaded", "gz", "bw", "pendingFile", "lastAppliedOffset", "tmp"}, Locks: []string{"mu"}},
		},
		CallerHolds: map[string]map[string]byte{
			"Tombstoner.prepareV4":        {"mu": 'W'},
			"Tombstoner.commit":           {"mu": 'W'},
			"Tombstoner.rollback":         {"mu": 'W'},
			"Tombstoner.writeTombstoneV3": {"mu": 'W'},
			"Tombstoner.writeTombstone":   {"mu": 'W'},
			"Tombstoner.readTombstoneV1":  {"mu": 'R'},
			"Tombstoner.readTombstoneV2":  {"mu": 'R'},
			"Tombstoner.readTombstoneV3":  {"mu": 'R'},
			"Tombstoner.readTombstoneV4":  {"mu": 'W'},
		},
		ExemptFunc:   map[string]string{},
		ExemptAccess: map[string]string{},
	},
}

func runC08(p *core.Prog, r *core.Report, tier string) {
	core.RuleLocksX(r, p, x2TombLocks, "tombstone-locks", 40, 0)
	x2TombstoneCommit(p, r)
	x2TombstoneHeader(p, r)
	x2TsmHeader(p, r)
	x2TsmIndexOffset(p, r)
}

// x2AfterFailure: from the failure branch of every call of class a, every path to
// an exit passes a call of class b. Returns the number of a-sites examined.
func x2AfterFailure(r *core.Report, f *core.Func, g *core.Graph, rule, aName string, a core.Matcher, bName string, b core.Matcher) int {
	n := 0
	for _, nd := range g.Select(g.Calling(a)) {
		var fail *core.Edge
		if fe, _, ok := g.ErrEdges(nd); ok {
			fail = fe
		}
		if fail == nil {
			r.Bad(rule, f.String(), aName+":unchecked", g.Line(nd), "the error of "+aName+" is not tested by a following `!= nil` branch")
			continue
		}
		n++
		reach := g.Reach([]*core.Node{fail.To}, g.Calling(b), nil)
		bad := false
		for _, x := range g.Exits {
			if reach[x] && x.Kind != core.KPanic {
				bad = true
			}
		}
		r.Check(!bad, rule, f.String(), bName+"-after-failed-"+aName, g.Line(nd), "every path from a failed "+aName+" passes "+bName+" before the function returns")
	}
	return n
}

func x2TombstoneCommit(p *core.Prog, r *core.Report) {
	const rule = "tombstone-commit"
	commit := call(tsm1 + ".Tombstoner.commit")
	rollback := call(tsm1 + ".Tombstoner.rollback")
	pk := p.Pkg(tsm1)
	pending := core.LookupField(pk.Types, "Tombstoner", "pendingFile")
	gzF := core.LookupField(pk.Types, "Tombstoner", "gz")
	bwF := core.LookupField(pk.Types, "Tombstoner", "bw")
	if !r.Check(pending != nil && gzF != nil && bwF != nil, "anchor", tsm1+".Tombstoner.pendingFile/gz/bw", "unresolved", "-", "fields resolved") {
		return
	}
	isPendingNil := func(g *core.Graph, nilBranch bool) core.EdgePred {
		return g.NilEdge(func(x ast.Expr) bool { return core.FieldOf(g.Info, x) == pending }, nilBranch)
	}
	if f := r.Need(p, tsm1, "Tombstoner.commit"); f != nil {
		g := f.Graph()
		names := []string{"gzip.Close", "bufio.Flush", "File.Sync", "RenameFile", "SyncDir"}
		ms := []core.Matcher{call("compress/gzip.Writer.Close"), call("bufio.Writer.Flush"), call("os.File.Sync"), call("pkg/file.RenameFile"), call("pkg/file.SyncDir")}
		core.RuleOrder(r, f, rule, names, ms)
		// nothing pending is the only way to succeed without the protocol
		for i, m := range ms {
			core.RuleMustPassN(r, f, g, rule, names[i], g.Calling(m), isPendingNil(g, true))
		}
		core.RuleErrorsUsed(r, f, rule, "close/flush/sync/rename/syncdir", core.Or(ms...), false, 5)
		// the renamed file is the pending file, the target is the tombstone path
		okRen := false
		for _, c := range core.AllCalls(f.Info(), f.Decl.Body, call("pkg/file.RenameFile")) {
			if len(c.Args) == 2 {
				if tc, ok := ast.Unparen(c.Args[1]).(*ast.CallExpr); ok && call(tsm1+".Tombstoner.tombstonePath")(f.Info(), tc) {
					src := core.ObjOf(f.Info(), c.Args[0])
					if src != nil && assignedOnlyFrom(f, src, call("os.File.Name")) {
						okRen = true
					}
				}
			}
		}
		r.Check(okRen, rule, f.String(), "rename-args", f.Pos(), "RenameFile(<name of the pending file>, t.tombstonePath())")
		// success clears the pending state so that the next delete starts a new temp file
		core.RuleMustPassN(r, f, g, rule, "pendingFile=nil", g.Assigning(pending), isPendingNil(g, true))
		pre := g.ReachFromEntry(g.Calling(call("pkg/file.SyncDir")), nil)
		for _, s := range g.Select(g.Assigning(pending)) {
			r.Check(!pre[s], rule, f.String(), "SyncDir<pendingFile=nil", g.Line(s), "the pending state is cleared only after the directory was fsynced")
		}
	}
	if f := r.Need(p, tsm1, "Tombstoner.Flush"); f != nil {
		g := f.Graph()
		core.RuleMustPass(r, f, rule, "Tombstoner.commit", commit, false)
		n := x2AfterFailure(r, f, g, rule, "commit", commit, "rollback", rollback)
		r.Check(n >= 1, rule, f.String(), "commit:absent", f.Pos(), "Flush commits")
		core.RuleErrorsUsed(r, f, rule, "commit", commit, false, 1)
	}
	if f := r.Need(p, tsm1, "Tombstoner.Rollback"); f != nil {
		core.RuleMustPass(r, f, rule, "Tombstoner.rollback", rollback, false)
	}
	if f := r.Need(p, tsm1, "Tombstoner.rollback"); f != nil {
		g := f.Graph()
		exempt := isPendingNil(g, true)
		core.RuleMustPassN(r, f, g, rule, "os.Remove(temp)", g.Calling(call("os.Remove")), exempt)
		for _, fv := range []*types.Var{pending, gzF, bwF} {
			core.RuleMustPassN(r, f, g, rule, fv.Name()+"=nil", g.Assigning(fv), exempt)
		}
		// the file removed is the pending file
		okRm := false
		for _, c := range core.AllCalls(f.Info(), f.Decl.Body, call("os.Remove")) {
			if len(c.Args) == 1 {
				if o := core.ObjOf(f.Info(), c.Args[0]); o != nil && assignedOnlyFrom(f, o, call("os.File.Name")) {
					okRm = true
				}
			}
		}
		r.Check(okRm, rule, f.String(), "remove-arg", f.Pos(), "the file removed is the pending temp file")
	}
	if f := r.Need(p, tsm1, "Tombstoner.prepareV4"); f != nil {
		g := f.Graph()
		// a pending file is reused, otherwise a new temp file is created exclusively and published in t.pendingFile
		core.RuleMustPassN(r, f, g, rule, "pendingFile=tmp", g.Assigning(pending), core.OrEdge(isPendingNil(g, false), g.ErrNonNilEdge()))
		core.RuleErrorsUsed(r, f, rule, "OpenFile", call("os.OpenFile"), false, 1)
	}
	if f := r.Need(p, tsm1, "Tombstoner.AddRange"); f != nil {
		core.RuleErrorsUsed(r, f, rule, "prepareV4/writeTombstone/writeTombstoneV3", call(tsm1+".Tombstoner.prepareV4", tsm1+".Tombstoner.writeTombstone", tsm1+".Tombstoner.writeTombstoneV3"), false, 3)
	}
	// reader side: batch protocol
	bdRange := call(tsm1 + ".BatchDeleter.DeleteRange")
	bdCommit := call(tsm1 + ".BatchDeleter.Commit")
	bdRollback := call(tsm1 + ".BatchDeleter.Rollback")
	if f := r.Need(p, tsm1, "TSMReader.DeleteRange"); f != nil {
		g := f.Graph()
		n := x2AfterFailure(r, f, g, rule, "BatchDeleter.DeleteRange", bdRange, "BatchDeleter.Rollback", bdRollback)
		r.Check(n >= 1, rule, f.String(), "DeleteRange:absent", f.Pos(), "deletes through a batch")
		var keys types.Object
		if len(f.Decl.Type.Params.List) > 0 && len(f.Decl.Type.Params.List[0].Names) > 0 {
			keys = f.Info().Defs[f.Decl.Type.Params.List[0].Names[0]]
		}
		core.RuleMustPassN(r, f, g, rule, "BatchDeleter.Commit", g.Calling(bdCommit), g.EmptyEdge(core.IsObj(f.Info(), keys)))
		core.RuleErrorsUsed(r, f, rule, "DeleteRange/Commit", core.Or(bdRange, bdCommit), false, 2)
		// no commit after a failed DeleteRange
		core.RuleNotAfterFailure(r, f, rule, "BatchDeleter.DeleteRange", bdRange, "BatchDeleter.Commit", bdCommit)
	}
	flush := call(tsm1 + ".Tombstoner.Flush")
	apply := call(tsm1 + ".TSMReader.applyTombstones")
	delMu := core.LookupField(pk.Types, "TSMReader", "deleteMu")
	muOp := func(op string) core.Matcher {
		return func(info *types.Info, c *ast.CallExpr) bool {
			fld, o, ok := core.LockOpOn(info, c)
			return ok && fld == delMu && delMu != nil && o == op
		}
	}
	if f := r.Need(p, tsm1, "batchDelete.Commit"); f != nil {
		core.RuleOrder(r, f, rule, []string{"Tombstoner.Flush", "applyTombstones"}, []core.Matcher{flush, apply})
		core.RuleMustPass(r, f, rule, "applyTombstones", apply, false)
		core.RuleNotAfterFailure(r, f, rule, "Tombstoner.Flush", flush, "applyTombstones", apply)
		core.RuleErrorsUsed(r, f, rule, "Flush/applyTombstones", core.Or(flush, apply), false, 2)
		core.RuleMustPass(r, f, rule, "deleteMu.Unlock", muOp("Unlock"), true)
	}
	if f := r.Need(p, tsm1, "batchDelete.Rollback"); f != nil {
		core.RuleMustPass(r, f, rule, "Tombstoner.Rollback", call(tsm1+".Tombstoner.Rollback"), false)
		core.RuleMustPass(r, f, rule, "deleteMu.Unlock", muOp("Unlock"), true)
	}
	if f := r.Need(p, tsm1, "TSMReader.BatchDelete"); f != nil {
		core.RuleMustPass(r, f, rule, "deleteMu.Lock", muOp("Lock"), false)
	}
	if f := r.Need(p, tsm1, "batchDelete.DeleteRange"); f != nil {
		core.RuleErrorsUsed(r, f, rule, "Tombstoner.AddRange", call(tsm1+".Tombstoner.AddRange"), false, 1)
	}
	if f := r.Need(p, tsm1, "FileStore.DeleteRange"); f != nil {
		// the delete/commit literal's failure leads to Rollback of the batches
		info := f.Info()
		g := f.Graph()
		rb := call(tsm1 + ".BatchDeleters.Rollback")
		var lit *ast.FuncLit
		var litNode *core.Node
		for _, nd := range g.Nodes {
			if nd.N == nil {
				continue
			}
			ast.Inspect(nd.N, func(x ast.Node) bool {
				if c, ok := x.(*ast.CallExpr); ok {
					if fl, ok := ast.Unparen(c.Fun).(*ast.FuncLit); ok && len(core.AllCalls(info, fl.Body, call(tsm1+".BatchDeleters.Commit"))) > 0 {
						lit, litNode = fl, nd
					}
				}
				return true
			})
		}
		if r.Check(lit != nil, rule, f.String(), "delete-commit-literal:absent", f.Pos(), "the in-place literal running DeleteRange then Commit was found") {
			lg := f.LitGraph(lit)
			dr := call(tsm1 + ".BatchDeleters.DeleteRange")
			cm := call(tsm1 + ".BatchDeleters.Commit")
			core.RulePrecedeG(r, lg, f, rule, "BatchDeleters.DeleteRange", dr, "BatchDeleters.Commit", cm)
			core.RuleMustPassN(r, f, lg, rule, "BatchDeleters.Commit", lg.Calling(cm), nil)
			fe, _, ok := g.ErrEdges(litNode)
			if r.Check(ok, rule, f.String(), "delete-commit:unchecked", g.Line(litNode), "the error of the delete/commit step is tested") {
				reach := g.Reach([]*core.Node{fe.To}, g.Calling(rb), nil)
				bad := false
				for _, x := range g.Exits {
					if reach[x] && x.Kind != core.KPanic {
						bad = true
					}
				}
				r.Check(!bad, rule, f.String(), "Rollback-after-failed-delete/commit", g.Line(litNode), "every path from a failed batched delete/commit passes BatchDeleters.Rollback")
			}
		}
	}
}

func x2TombstoneHeader(p *core.Prog, r *core.Report) {
	const rule = "tombstone-header"
	pk := p.Pkg(tsm1)
	// version table confirmed by reading tombstone.go
	table := map[string]string{"v2header": "readTombstoneV2", "v3header": "readTombstoneV3", "v4header": "readTombstoneV4"}
	putU32 := call("encoding/binary.bigEndian.PutUint32", "encoding/binary.ByteOrder.PutUint32", "encoding/binary.AppendByteOrder.AppendUint32")
	// written header constants, per Tombstoner method
	written := map[string][]string{} // const -> writers
	for _, f := range p.Funcs(tsm1) {
		if f.Decl.Body == nil || x2RecvTypeOf(f) != "Tombstoner" {
			continue
		}
		for _, c := range core.AllCalls(f.Info(), f.Decl.Body, putU32) {
			if len(c.Args) != 2 {
				continue
			}
			if k, ok := core.ObjOf(f.Info(), c.Args[1]).(*types.Const); ok && k.Pkg() == pk.Types {
				written[k.Name()] = append(written[k.Name()], f.Name)
				r.Saw(f)
			}
		}
	}
	r.Check(len(written) >= 2, rule, tsm1+".Tombstoner", "written-headers:count", "-", fmt.Sprintf("%d header constants written by Tombstoner methods (>= 2: v3header, v4header)", len(written)))
	// dispatched constants in Walk
	disp := map[string]string{} // const -> reader called on the equal branch
	if f := r.Need(p, tsm1, "Tombstoner.Walk"); f != nil {
		info := f.Info()
		g := f.Graph()
		// the header value: a local assigned once from binary.BigEndian.Uint32
		readerOn := func(e *core.Edge, k *types.Const) {
			// the equal branch returns the result of exactly one reader
			if rs, ok := e.To.N.(*ast.ReturnStmt); ok && len(rs.Results) == 1 {
				if c, ok := ast.Unparen(rs.Results[0]).(*ast.CallExpr); ok {
					if fn := core.Callee(info, c); fn != nil {
						disp[k.Name()] = fn.Name()
					}
				}
			}
		}
		fromHeader := func(e ast.Expr) bool {
			ho := core.ObjOf(info, e)
			return ho != nil && assignedOnlyFrom(f, ho, call("encoding/binary.bigEndian.Uint32", "encoding/binary.ByteOrder.Uint32"))
		}
		for _, nd := range g.Nodes {
			for _, e := range nd.Succ {
				// switch header { case k: … }
				if e.Tag != nil && e.Cond != nil && e.Branch {
					if k, ok := core.ObjOf(info, ast.Unparen(e.Cond)).(*types.Const); ok && k.Pkg() == pk.Types && fromHeader(ast.Unparen(e.Tag)) {
						readerOn(e, k)
					}
					continue
				}
				for _, at := range e.Atoms() {
					be, ok := at.X.(*ast.BinaryExpr)
					if !ok || (be.Op != token.EQL && be.Op != token.NEQ) {
						continue
					}
					var k *types.Const
					var other ast.Expr
					if c, ok := core.ObjOf(info, be.X).(*types.Const); ok {
						k, other = c, be.Y
					} else if c, ok := core.ObjOf(info, be.Y).(*types.Const); ok {
						k, other = c, be.X
					}
					if k == nil || k.Pkg() != pk.Types {
						continue
					}
					ho := core.ObjOf(info, other)
					if ho == nil || !assignedOnlyFrom(f, ho, call("encoding/binary.bigEndian.Uint32", "encoding/binary.ByteOrder.Uint32")) {
						continue
					}
					if at.Val != (be.Op == token.EQL) {
						continue // the branch on which header == k
					}
					// the equal branch returns the result of exactly one reader
					if rs, ok := e.To.N.(*ast.ReturnStmt); ok && len(rs.Results) == 1 {
						if c, ok := ast.Unparen(rs.Results[0]).(*ast.CallExpr); ok {
							if fn := core.Callee(info, c); fn != nil {
								disp[k.Name()] = fn.Name()
							}
						}
					}
				}
			}
		}
		var ks []string
		for k := range table {
			ks = append(ks, k)
		}
		sort.Strings(ks)
		for _, k := range ks {
			r.Check(disp[k] == table[k], rule, f.String(), "dispatch:"+k, f.Pos(), fmt.Sprintf("header %s is read by %s (found %q)", k, table[k], disp[k]))
		}
		// the fall-through reader is V1 (headerless text)
		okV1 := false
		for _, x := range g.Exits {
			if rs, ok := x.N.(*ast.ReturnStmt); ok && len(rs.Results) == 1 {
				if c, ok := ast.Unparen(rs.Results[0]).(*ast.CallExpr); ok && call(tsm1+".Tombstoner.readTombstoneV1")(info, c) {
					okV1 = true
				}
			}
		}
		r.Check(okV1, rule, f.String(), "dispatch:v1", f.Pos(), "files without a known header are read as v1")
	}
	var ws []string
	for k := range written {
		ws = append(ws, k)
	}
	sort.Strings(ws)
	// which method writes which header (confirmed by reading): the v3 writer must not label its
	// output v4 and vice versa
	writerOf := map[string]string{"v3header": "Tombstoner.writeTombstoneV3", "v4header": "Tombstoner.prepareV4"}
	for _, k := range ws {
		for _, w := range written[k] {
			r.Check(writerOf[k] == w, rule, tsm1+"."+w, "writes-foreign-header:"+k, "-", fmt.Sprintf("%s writes header %s; the header/format table says %s is written by %s", w, k, k, writerOf[k]))
		}
	}
	for _, k := range ws {
		_, known := table[k]
		r.Check(known && disp[k] == table[k], rule, tsm1+".Tombstoner", "written-not-dispatched:"+k, "-", fmt.Sprintf("header %s written by %v is dispatched by Walk to %s", k, written[k], table[k]))
	}
	// prepareV4 appends only to a file carrying the header it writes itself
	if f := r.Need(p, tsm1, "Tombstoner.prepareV4"); f != nil {
		info := f.Info()
		g := f.Graph()
		var wr *types.Const
		for _, c := range core.AllCalls(info, f.Decl.Body, putU32) {
			if len(c.Args) == 2 {
				if k, ok := core.ObjOf(info, c.Args[1]).(*types.Const); ok {
					wr = k
				}
			}
		}
		okCmp := false
		copyNodes := g.Select(g.Calling(call("io.Copy")))
		for _, nd := range g.Nodes {
			for _, e := range nd.Succ {
				for _, at := range e.Atoms() {
					be, ok := at.X.(*ast.BinaryExpr)
					if !ok || (be.Op != token.EQL && be.Op != token.NEQ) {
						continue
					}
					kx, _ := core.ObjOf(info, be.X).(*types.Const)
					ky, _ := core.ObjOf(info, be.Y).(*types.Const)
					if (kx != wr && ky != wr) || wr == nil {
						continue
					}
					// on the branch where the header differs, the old content is never copied and the call fails
					if at.Val == (be.Op == token.NEQ) {
						reach := g.Reach([]*core.Node{e.To}, nil, nil)
						bad := false
						for _, cn := range copyNodes {
							if reach[cn] {
								bad = true
							}
						}
						for _, x := range g.SuccessExits() {
							if reach[x] {
								bad = true
							}
						}
						okCmp = !bad
					}
				}
			}
		}
		r.Check(wr != nil && okCmp && len(copyNodes) >= 1, rule, f.String(), "append-only-to-own-version", f.Pos(), "an existing file is copied into the new temp file only when its header equals the constant prepareV4 writes; otherwise the call fails (caller rewrites as v3)")
	}
}

func x2ConstUsed(f *core.Func, k types.Object) bool {
	used := false
	ast.Inspect(f.Decl.Body, func(x ast.Node) bool {
		if id, ok := x.(*ast.Ident); ok && f.Info().Uses[id] == k {
			used = true
		}
		return true
	})
	return used
}

func x2TsmHeader(p *core.Prog, r *core.Report) {
	const rule = "tsm-header"
	pk := p.Pkg(tsm1)
	magic := pk.Types.Scope().Lookup("MagicNumber")
	version := pk.Types.Scope().Lookup("Version")
	nF := core.LookupField(pk.Types, "tsmWriter", "n")
	if !r.Check(magic != nil && version != nil && nF != nil, "anchor", tsm1+".MagicNumber/Version/tsmWriter.n", "unresolved", "-", "constants and field resolved") {
		return
	}
	wh := call(tsm1 + ".tsmWriter.writeHeader")
	bufWrite := call("bufio.Writer.Write")
	if f := r.Need(p, tsm1, "tsmWriter.writeHeader"); f != nil {
		g := f.Graph()
		r.Check(x2ConstUsed(f, magic) && x2ConstUsed(f, version), rule, f.String(), "magic+version", f.Pos(), "the header is built from MagicNumber and Version")
		core.RuleMustPass(r, f, rule, "bufio.Write", bufWrite, false)
		core.RuleErrorsUsed(r, f, rule, "bufio.Write", bufWrite, false, 1)
		core.RuleMustPassN(r, f, g, rule, "n=len(header)", g.Assigning(nF), nil)
	}
	// data only after the header
	nonZero := func(g *core.Graph) core.EdgePred {
		return core.EqEdge(
			func(x ast.Expr) bool { return core.FieldOf(g.Info, x) == nF },
			func(x ast.Expr) bool { v := core.ConstVal(g.Info, x); return v != nil && v.ExactString() == "0" },
			false) // the branch on which n != 0
	}
	for _, n := range []string{"tsmWriter.Write", "tsmWriter.WriteBlock"} {
		f := r.Need(p, tsm1, n)
		if f == nil {
			continue
		}
		g := f.Graph()
		ws := g.Select(g.Calling(bufWrite))
		if !r.Check(len(ws) >= 2, rule, f.String(), "bufio.Write:count", f.Pos(), "checksum and block are written") {
			continue
		}
		reach := g.ReachFromEntry(g.Calling(wh), nonZero(g))
		ok := len(g.Select(g.Calling(wh))) >= 1
		for _, w := range ws {
			if reach[w] {
				ok = false
			}
		}
		r.Check(ok, rule, f.String(), "header<data", g.Line(ws[0]), "block bytes are written only after writeHeader, or when the file position is already non-zero")
		core.RuleErrorsUsed(r, f, rule, "writeHeader/bufio.Write", core.Or(wh, bufWrite), false, 3)
	}
	// reader side
	if f := r.Need(p, tsm1, "verifyVersion"); f != nil {
		info := f.Info()
		g := f.Graph()
		for _, k := range []types.Object{magic, version} {
			found := false
			okRej := true
			for _, nd := range g.Nodes {
				for _, e := range nd.Succ {
					isK := func(x ast.Expr) bool { return core.ObjOf(info, x) == k }
					if !core.EqEdge(isK, func(ast.Expr) bool { return true }, false)(e) {
						continue
					}
					found = true
					reach := g.Reach([]*core.Node{e.To}, nil, nil)
					for _, x := range g.SuccessExits() {
						if reach[x] {
							okRej = false
						}
					}
				}
			}
			r.Check(found && okRej, rule, f.String(), "rejects-other-"+k.Name(), f.Pos(), "a file whose "+k.Name()+" differs is rejected on every path")
		}
		// success only after both comparisons
		cmp := func(k types.Object) core.NodePred {
			return func(n *core.Node) bool {
				e, ok := n.N.(ast.Expr)
				if !ok || len(n.Succ) != 2 {
					return false
				}
				hit := false
				ast.Inspect(e, func(x ast.Node) bool {
					if be, ok := x.(*ast.BinaryExpr); ok && (be.Op == token.EQL || be.Op == token.NEQ) && (core.ObjOf(info, be.X) == k || core.ObjOf(info, be.Y) == k) {
						hit = true
					}
					return true
				})
				return hit
			}
		}
		core.RuleMustPassN(r, f, g, rule, "compare(MagicNumber)", cmp(magic), nil)
		core.RuleMustPassN(r, f, g, rule, "compare(Version)", cmp(version), nil)
	}
	if f := r.Need(p, tsm1, "mmapAccessor.init"); f != nil {
		vv := call(tsm1 + ".verifyVersion")
		core.RuleMustPass(r, f, rule, "verifyVersion", vv, false)
		core.RuleErrorsUsed(r, f, rule, "verifyVersion", vv, false, 1)
		core.RulePrecede(r, f, rule, "verifyVersion", vv, "indirectIndex.UnmarshalBinary", call(tsm1+".indirectIndex.UnmarshalBinary"))
	}
	if f := r.Need(p, tsm1, "NewTSMReader"); f != nil {
		ini := call(tsm1 + ".blockAccessor.init")
		ap := call(tsm1 + ".TSMReader.applyTombstones")
		core.RuleMustPass(r, f, rule, "blockAccessor.init", ini, false)
		core.RuleMustPass(r, f, rule, "applyTombstones", ap, false)
		core.RuleErrorsUsed(r, f, rule, "init/applyTombstones", core.Or(ini, ap), false, 2)
		core.RuleOrder(r, f, rule, []string{"blockAccessor.init", "applyTombstones"}, []core.Matcher{ini, ap})
	}
	if f := r.Need(p, tsm1, "TSMReader.applyTombstones"); f != nil {
		core.RuleHasCall(r, f, rule, "Tombstoner.Walk", call(tsm1+".Tombstoner.Walk"))
		core.RuleHasCall(r, f, rule, "TSMIndex.DeleteRange", call(tsm1+".TSMIndex.DeleteRange"))
		core.RuleErrorsUsed(r, f, rule, "Tombstoner.Walk", call(tsm1+".Tombstoner.Walk"), false, 1)
	}
}

func x2TsmIndexOffset(p *core.Prog, r *core.Report) {
	const rule = "tsm-index-offset"
	pk := p.Pkg(tsm1)
	nF := core.LookupField(pk.Types, "tsmWriter", "n")
	wF := core.LookupField(pk.Types, "tsmWriter", "w")
	if !r.Check(nF != nil && wF != nil, "anchor", tsm1+".tsmWriter.n/w", "unresolved", "-", "fields resolved") {
		return
	}
	add := call(tsm1 + ".IndexWriter.Add")
	bufWrite := call("bufio.Writer.Write")
	for _, n := range []string{"tsmWriter.Write", "tsmWriter.WriteBlock"} {
		f := r.Need(p, tsm1, n)
		if f == nil {
			continue
		}
		info := f.Info()
		g := f.Graph()
		adds := g.Select(g.Calling(add))
		if !r.Check(len(adds) == 1, rule, f.String(), "index.Add:absent", f.Pos(), "the block is recorded in the index once") {
			continue
		}
		okArg := false
		for _, c := range core.CallsIn(info, adds[0].N, add, core.WalkOpts{}) {
			if len(c.Args) == 6 && core.FieldOf(info, c.Args[4]) == nF {
				okArg = true
			}
		}
		r.Check(okArg, rule, f.String(), "offset-arg", g.Line(adds[0]), "the offset recorded for the block is the current file position t.n")
		// n advances after Add, and on every successful write
		pre := g.ReachFromEntry(g.Calling(add), nil)
		stores := g.Select(g.Assigning(nF))
		okOrder := len(stores) >= 1
		for _, s := range stores {
			if pre[s] {
				okOrder = false
			}
		}
		r.Check(okOrder, rule, f.String(), "Add<n-advance", g.Line(adds[0]), "the file position advances only after the block was recorded at the old position")
		// the block bytes are written before they are recorded
		core.RulePrecede(r, f, rule, "bufio.Write", bufWrite, "index.Add", add)
		var data types.Object
		if ps := f.Decl.Type.Params.List; len(ps) > 0 {
			last := ps[len(ps)-1]
			if len(last.Names) > 0 {
				data = info.Defs[last.Names[len(last.Names)-1]]
			}
		}
		core.RuleMustPassN(r, f, g, rule, "n-advance", g.Assigning(nF), g.EmptyEdge(core.IsObj(info, data)))
	}
	if f := r.Need(p, tsm1, "tsmWriter.WriteIndex"); f != nil {
		info := f.Info()
		g := f.Graph()
		wt := call(tsm1 + ".IndexWriter.WriteTo")
		put := call("encoding/binary.bigEndian.PutUint64", "encoding/binary.ByteOrder.PutUint64")
		// indexPos := t.n, once, before WriteTo
		var pos types.Object
		var posNode *core.Node
		nAssign := 0
		for _, nd := range g.Nodes {
			as, ok := nd.N.(*ast.AssignStmt)
			if !ok || len(as.Lhs) != 1 || len(as.Rhs) != 1 {
				continue
			}
			if core.FieldOf(info, as.Rhs[0]) == nF {
				pos, posNode = core.ObjOf(info, as.Lhs[0]), nd
			}
		}
		if pos != nil {
			ast.Inspect(f.Decl.Body, func(x ast.Node) bool {
				if as, ok := x.(*ast.AssignStmt); ok {
					for _, l := range as.Lhs {
						if core.ObjOf(info, l) == pos {
							nAssign++
						}
					}
				}
				return true
			})
		}
		if r.Check(pos != nil && nAssign == 1, rule, f.String(), "index-position-captured", f.Pos(), "the index position is captured once from t.n") {
			pre := g.ReachFromEntry(func(n *core.Node) bool { return n == posNode }, nil)
			wts := g.Select(g.Calling(wt))
			ok := len(wts) >= 1
			for _, w := range wts {
				if pre[w] {
					ok = false
				}
			}
			r.Check(ok, rule, f.String(), "capture<WriteTo", g.Line(posNode), "the position is captured before the index is written")
			okPut := false
			for _, c := range core.AllCalls(info, f.Decl.Body, put) {
				if len(c.Args) == 2 {
					ast.Inspect(c.Args[1], func(x ast.Node) bool {
						if id, isId := x.(*ast.Ident); isId && info.Uses[id] == pos {
							okPut = true
						}
						return true
					})
				}
			}
			r.Check(okPut, rule, f.String(), "trailer-value", f.Pos(), "the 8-byte trailer encodes the captured index position")
		}
		core.RuleOrder(r, f, rule, []string{"IndexWriter.WriteTo", "PutUint64", "bufio.Write(trailer)"}, []core.Matcher{wt, put, bufWrite})
		core.RuleMustPass(r, f, rule, "bufio.Write(trailer)", bufWrite, false)
		core.RuleErrorsUsed(r, f, rule, "WriteTo/Write", core.Or(wt, bufWrite), false, 2)
		core.RuleNotAfterFailure(r, f, rule, "IndexWriter.WriteTo", wt, "bufio.Write(trailer)", bufWrite)
	}
	// who writes to the file buffer
	allowed := map[string]bool{"tsmWriter.writeHeader": true, "tsmWriter.Write": true, "tsmWriter.WriteBlock": true, "tsmWriter.WriteIndex": true}
	seen := map[string]bool{}
	for _, f := range p.Funcs(tsm1) {
		if f.Decl.Body == nil {
			continue
		}
		for _, c := range core.AllCalls(f.Info(), f.Decl.Body, func(*types.Info, *ast.CallExpr) bool { return true }) {
			se, ok := ast.Unparen(c.Fun).(*ast.SelectorExpr)
			if !ok || core.FieldOf(f.Info(), se.X) != wF {
				// also t.w passed as an io.Writer argument
				passes := false
				for _, a := range c.Args {
					if core.FieldOf(f.Info(), a) == wF {
						passes = true
					}
				}
				if !passes {
					continue
				}
			} else if fn := core.Callee(f.Info(), c); fn == nil || (fn.Name() != "Write" && fn.Name() != "WriteString" && fn.Name() != "WriteByte" && fn.Name() != "ReadFrom") {
				continue
			}
			seen[f.Name] = true
			if !allowed[f.Name] {
				r.Saw(f)
				r.Bad(rule, f.String(), "writes-file-buffer", p.Pos(c.Pos()), f.Name+" writes to tsmWriter.w but is not one of writeHeader/Write/WriteBlock/WriteIndex: the file position t.n and the index offsets no longer describe the file")
			}
		}
	}
	var miss []string
	for n := range allowed {
		if !seen[n] {
			miss = append(miss, n)
		}
	}
	sort.Strings(miss)
	r.Check(len(miss) == 0, rule, tsm1+".tsmWriter.w", "writer-table-stale", "-", fmt.Sprintf("writeHeader, Write, WriteBlock and WriteIndex write to the file buffer (missing: %v)", miss))
}
