package rules

import (
	"fmt"
	"go/ast"
	"go/types"
	"strings"

	"verif/checker/core"
)

// C01 extension (m9): survivor-driven rules for the non-templated part of the
// read path.
//
//   - entry-reaches-result (Cache.Values): an entry read from the hot or the
//     snapshot store that is non-nil is merged into the result — it reaches the
//     merge list on every path that does not establish that it is nil; the
//     snapshot store is consulted unless c.snapshot is nil; after a contribution
//     the function returns "no values" only on a branch that established that
//     the accumulated size is zero.
//   - dedupe-unless-trivial (entry.deduplicate): the entry's values are replaced
//     by their Deduplicate() unless the entry was found to hold at most one value.
//   - snapshot-written-unless-empty (Engine.doWriteSnapshot, shared with C02): a
//     snapshot is released from the cache unwritten only when it is empty.
//   - generic-sibling: the interface-typed Values.{Deduplicate,Less,Len,Swap} used
//     by the cache are the same template as their five typed siblings.
func init() {
	extend("C01", "(11) entry-reaches-result: in Cache.Values the snapshot store is read unless c.snapshot == nil, a hot/snapshot entry is appended to the merge list on every path that has not established that it is nil (no exit and no copy in between), and after an entry was contributed a nil result is returned only on a branch establishing that the accumulated size is zero; entry.deduplicate replaces e.values by its Deduplicate() unless len(e.values) <= 1 was established; Engine.doWriteSnapshot releases a snapshot unwritten only when its size is zero; the interface-typed Values.Deduplicate/Less/Len/Swap are identical to their typed siblings after abstracting the value type.",
		nil, func(p *core.Prog, r *core.Report, tier string) {
			m9CacheValuesContrib(p, r)
			m9EntryDeduplicate(p, r, "dedupe-unless-trivial")
			m1SnapshotWritten(p, r)
			m9GenericSiblings(p, r, "sibling-uniformity", []string{"Deduplicate", "Less", "Len", "Swap"})
			for _, m := range []string{"Less", "Len", "Swap"} {
				x1SiblingGroup(p, r, "sibling-uniformity", "tsm1.<T>Values."+m, func(t string) string { return t + "Values." + m }, nil)
			}
		})
}

// m9GenericSiblings: Values.<m> (slice of the Value interface) is the same template
// instantiation as the typed <T>Values.<m>.
func m9GenericSiblings(p *core.Prog, r *core.Report, rule string, methods []string) {
	for _, m := range methods {
		gen := r.Need(p, tsm1, "Values."+m)
		if gen == nil {
			continue
		}
		count := map[string]int{}
		n := 0
		for _, t := range x1TsmT {
			// the typed siblings are only the reference here (C01 checks them among themselves)
			if f := p.Func(tsm1, t+"Values."+m); f != nil {
				count[strings.ReplaceAll(core.X1NormalizedBody(f), "TValues", "Values")]++
				n++
			}
		}
		best, bestN := "", 0
		for s, c := range count {
			if c > bestN {
				best, bestN = s, c
			}
		}
		got := core.X1NormalizedBody(gen)
		detail := fmt.Sprintf("Values.%s equals the body shared by %d of its %d typed siblings after abstracting the value type", m, bestN, n)
		if got != best {
			la, lb := strings.Split(best, "\n"), strings.Split(got, "\n")
			for i := 0; i < len(la) || i < len(lb); i++ {
				var x, y string
				if i < len(la) {
					x = la[i]
				}
				if i < len(lb) {
					y = lb[i]
				}
				if x != y {
					detail = fmt.Sprintf("typed siblings have %q, Values.%s has %q", core.Trim(x, 90), m, core.Trim(y, 90))
					break
				}
			}
		}
		r.Check(n >= 5 && bestN >= 3 && got == best, rule, "tsm1.Values."+m, "generic-sibling", gen.Pos(), detail)
	}
}

// m9LenAtMost: the edge establishes len(X) <= k for an X accepted by isX.
func m9LenAtMost(info *types.Info, isX func(ast.Expr) bool, k int64) core.EdgePred {
	return core.AtomEdge(func(c ast.Expr, val bool) bool {
		x, eval, ok := core.LenCmp(info, c)
		if !ok || !isX(x) {
			return false
		}
		for n := k + 1; n <= k+4; n++ {
			if eval(n) == val {
				return false
			}
		}
		return eval(1<<40) != val
	})
}

func m9EntryDeduplicate(p *core.Prog, r *core.Report, rule string) {
	f := r.Need(p, tsm1, "entry.deduplicate")
	if f == nil {
		return
	}
	info, g := f.Info(), f.Graph()
	vals := core.LookupField(f.Pkg.Types, "entry", "values")
	if vals == nil {
		return
	}
	dd := call("tsdb/engine/tsm1.Values.Deduplicate")
	store := func(n *core.Node) bool {
		as, ok := n.N.(*ast.AssignStmt)
		if !ok || len(as.Lhs) != 1 || len(as.Rhs) != 1 || core.FieldOf(info, as.Lhs[0]) != vals {
			return false
		}
		c, ok := ast.Unparen(as.Rhs[0]).(*ast.CallExpr)
		return ok && dd(info, c)
	}
	trivial := m9LenAtMost(info, func(e ast.Expr) bool { return core.FieldOf(info, e) == vals }, 1)
	core.RuleMustPassN(r, f, g, rule, "e.values = e.values.Deduplicate() (unless len(e.values) <= 1)", store, trivial)
}

func m9CacheValuesContrib(p *core.Prog, r *core.Report) {
	const rule = "entry-reaches-result"
	f := r.Need(p, tsm1, "Cache.Values")
	if f == nil {
		return
	}
	info, g := f.Info(), f.Graph()
	store := core.LookupField(f.Pkg.Types, "Cache", "store")
	snap := core.LookupField(f.Pkg.Types, "Cache", "snapshot")
	if store == nil || snap == nil {
		return
	}
	entryCall := call("tsdb/engine/tsm1.storer.entry")
	recv := types.Object(f.X1Recv())
	type src struct {
		name string
		v    types.Object
		n    *core.Node
	}
	var srcs []src
	for _, n := range g.Select(g.Calling(entryCall)) {
		as, ok := n.N.(*ast.AssignStmt)
		if !ok || len(as.Lhs) != 1 || len(as.Rhs) != 1 {
			continue
		}
		c, ok := ast.Unparen(as.Rhs[0]).(*ast.CallExpr)
		if !ok || !entryCall(info, c) {
			continue
		}
		root, path, ok := core.X1FieldPath(info, x1RecvExpr(c))
		if !ok || root != recv {
			continue
		}
		switch {
		case len(path) == 1 && path[0] == store:
			srcs = append(srcs, src{"hot", core.ObjOf(info, as.Lhs[0]), n})
		case len(path) == 2 && path[0] == snap && path[1] == store:
			srcs = append(srcs, src{"snapshot", core.ObjOf(info, as.Lhs[0]), n})
		}
	}
	if !r.Check(len(srcs) == 2 && srcs[0].v != nil && srcs[1].v != nil && srcs[0].name != srcs[1].name, rule, f.String(), "store-reads:absent", f.Pos(), "one read of the hot store and one of the snapshot store") {
		return
	}
	// (a) the stores are consulted: hot always, snapshot unless c.snapshot == nil
	isSnapField := func(e ast.Expr) bool {
		root, path, ok := core.X1FieldPath(info, e)
		return ok && root == recv && len(path) == 1 && path[0] == snap
	}
	for _, s := range srcs {
		node := s.n
		gate := func(n *core.Node) bool { return n == node }
		if s.name == "hot" {
			core.RuleMustPassN(r, f, g, rule, "read of c.store", gate, nil)
		} else {
			core.RuleMustPassN(r, f, g, rule, "read of c.snapshot.store (unless c.snapshot == nil)", gate, g.NilEdge(isSnapField, true))
		}
	}
	// (b) a non-nil entry is appended to the merge list before anything is copied or returned
	copies := g.Calling(core.Builtin("copy"))
	var appends []*core.Node
	for _, s := range srcs {
		v := s.v
		app := g.X1CallingWith(core.Builtin("append"), func(c *ast.CallExpr) bool {
			return len(c.Args) == 2 && core.ObjOf(info, c.Args[1]) == v
		})
		appends = append(appends, g.Select(app)...)
		isNil := g.NilEdge(core.IsObj(info, v), true)
		reach := g.Reach(core.X1Succs(s.n), app, isNil)
		bad := ""
		for n := range reach {
			if core.X1IsExit(n) && n.Kind != core.KPanic || copies(n) {
				if bad == "" || g.Line(n) < bad {
					bad = g.Line(n)
				}
			}
		}
		r.Check(bad == "" && len(g.Select(app)) >= 1, rule, f.String(), s.name+"-entry-dropped", firstNonEmpty12(bad, g.Line(s.n)),
			"after the "+s.name+" store was read every path appends its entry to the merge list before it copies or returns, unless it established that the entry is nil (values of a key that live only in this store would be missing from the read)")
	}
	// (c) once an entry was contributed, "no values" is returned only when the accumulated size is zero
	isAcc := func(e ast.Expr) bool {
		o, ok := core.ObjOf(info, e).(*types.Var)
		if !ok || o.IsField() || o.Parent() == nil || o.Parent() == o.Pkg().Scope() {
			return false
		}
		b, isBasic := o.Type().Underlying().(*types.Basic)
		if !isBasic || b.Info()&types.IsInteger == 0 {
			return false
		}
		// an accumulator: starts at 0 and only grows by op-assignment
		as := core.X1AssignmentsTo(info, f.Decl.Body, o)
		grows := 0
		for _, a := range as {
			st, isAs := a.Stmt.(*ast.AssignStmt)
			switch {
			case a.Rhs != nil && core.X1IsConstInt(info, a.Rhs, 0):
			case isAs && st.Tok.String() == "+=":
				grows++
			default:
				return false
			}
		}
		return grows >= 1
	}
	zero := core.X1IsIntConst(info, 0)
	empty := core.X1FactEdge(core.X1AnyFact(core.X1CmpFact(isAcc, zero, core.X1EQ), core.X1CmpFact(isAcc, zero, core.X1LE)))
	reach := g.Reach(core.X1SuccsOf(appends), nil, empty)
	bad := ""
	for n := range reach {
		rs, ok := n.N.(*ast.ReturnStmt)
		if ok && core.X1IsExit(n) && len(rs.Results) == 1 && core.IsNilIdent(info, rs.Results[0]) {
			bad = g.Line(n)
		}
	}
	r.Check(bad == "", rule, f.String(), "nil-result-after-contribution", firstNonEmpty12(bad, f.Pos()),
		"after an entry was appended to the merge list the function returns nil only on a branch that established that the accumulated value count is zero")
}
