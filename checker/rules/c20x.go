package rules

import (
	"fmt"
	"go/types"

	"verif/checker/core"
)

// `last` over a request WITHOUT a real window is served by a descending cursor
// plus a limit cursor. The decision function must classify a request as
// "no window" only when the window is zero in BOTH its nanosecond and its month
// component (or infinite); a calendar window (months > 0, nsecs == 0) read
// descending yields one wrong row instead of one row per month.
func init() {
	const note = "descending-optimisation table (exhaustive): IsLastDescendingAggregateOptimization, evaluated abstractly on every combination of aggregate count {0,1,2}, aggregate type {last, other}, Window {nil, set}, WindowEvery and Every.Nsecs {0, finite, MaxInt64}, Every.Months {0, 1}, answers true only for a single `last` aggregate whose window is zero in nanoseconds AND months, or infinite."
	// C41 depends on the same decision: a windowed `last` that is mistaken for "no
	// window" is read descending and yields one row instead of one per window.
	extend("C41", note, []string{"./storage/reads", "./storage/reads/datatypes"}, descendingOptimisationTable)
	extend("C20", note, []string{"./storage/reads/datatypes"}, descendingOptimisationTable)
}

func descendingOptimisationTable(p *core.Prog, r *core.Report, tier string) {
	{
		func() {
			const rule = "descending-optimisation-table"
			f := r.Need(p, "storage/reads", "IsLastDescendingAggregateOptimization")
			dt := p.Pkg("storage/reads/datatypes")
			if f == nil || dt == nil {
				return
			}
			last := dt.Types.Scope().Lookup("Aggregate_AggregateTypeLast")
			if !r.Check(last != nil, "anchor", "datatypes.Aggregate_AggregateTypeLast", "unresolved", "-", "constant resolved") {
				return
			}
			consts := map[types.Object]string{last: "last"}
			const maxI = "9223372036854775807"
			doms := []core.DDomain{
				{Path: "Q", Values: []string{"ptr"}},
				{Path: "len(*Q.Aggregate)", Values: []string{"0", "1", "2"}},
				{Path: "*Q.Aggregate[0]", Values: []string{"ptr"}},
				{Path: "**Q.Aggregate[0].Type", Values: []string{"last", "other"}},
				{Path: "*Q.Window", Values: []string{"nil", "ptr"}},
				{Path: "*Q.WindowEvery", Values: []string{"0", "5", maxI}},
				{Path: "**Q.Window.Every", Values: []string{"ptr"}},
				{Path: "***Q.Window.Every.Nsecs", Values: []string{"0", "5", maxI}},
				{Path: "***Q.Window.Every.Months", Values: []string{"0", "1"}},
			}
			rows, bad, trues := 0, 0, 0
			und, first := "", ""
			core.EnumModels(doms, func(m core.DModel) {
				rows++
				res, u := core.EvalOnX(p, f, m, []core.DVal{core.Path("Q")}, consts, nil, nil)
				if u != "" {
					und = u
					return
				}
				if res.Panicked {
					// indexing Aggregate[0] with an empty list is guarded by the length test
					if m["len(*Q.Aggregate)"] == "1" {
						bad++
						first = "nil dereference on " + m.String()
					}
					return
				}
				noWindow := false
				if m["*Q.Window"] == "nil" {
					noWindow = m["*Q.WindowEvery"] == "0" || m["*Q.WindowEvery"] == maxI
				} else {
					n, mo := m["***Q.Window.Every.Nsecs"], m["***Q.Window.Every.Months"]
					noWindow = (n == "0" && mo == "0") || n == maxI
				}
				want := m["len(*Q.Aggregate)"] == "1" && m["**Q.Aggregate[0].Type"] == "last" && noWindow
				if res.Value == "true" {
					trues++
				}
				if res.Value == "true" && !want {
					bad++
					if first == "" {
						first = "answers true for " + m.String()
					}
				}
			})
			switch {
			case und != "":
				r.Bad(rule, f.String(), "undecided", f.Pos(), "left the decidable fragment: "+und)
			case bad > 0:
				r.Bad(rule, f.String(), "descending-with-real-window", f.Pos(), fmt.Sprintf("%d of %d rows wrong; first: %s", bad, rows, first))
			default:
				r.Check(rows >= 100 && trues > 0, rule, f.String(), "rows:count", f.Pos(), fmt.Sprintf("%d rows enumerated, %d select the descending optimisation", rows, trues))
			}
		}()
	}
}
