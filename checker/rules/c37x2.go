package rules

import (
	"go/types"

	"verif/checker/core"
)

// Include, Exclude and Merge slice their arrays with the two positions FindRange
// returns and rely on rmin <= rmax. For an inverted range (min > max) whose bounds
// both lie inside the array's span the two binary searches return positions in
// the wrong order, so FindRange has to answer "outside" (-1, -1) itself: the
// searches may only be reached on an edge that established min <= max.
// (Seed C37b removed the test from FindRange and re-added it in Exclude only:
// {1,2,3}.Include(3,1) then slices [:-1].)
func init() {
	extend("C37", "range-order-guard: in the FindRange method of each of the 6 *Array types the binary searches for the two bounds (and with them every result other than (-1,-1)) are reached only on an edge that established min <= max — an inverted range is answered as empty by FindRange itself, which Include/Exclude/Merge rely on when they slice with the returned positions.",
		nil, func(p *core.Prog, r *core.Report, tier string) {
			const rule = "range-order-guard"
			const pkg = "tsdb/cursors"
			n := 0
			for _, t := range []string{"Float", "Integer", "Unsigned", "String", "Boolean", "Timestamp"} {
				f := r.Need(p, pkg, t+"Array.FindRange")
				if f == nil {
					continue
				}
				sig, _ := f.Obj.Type().(*types.Signature)
				if sig == nil || sig.Params().Len() != 2 {
					r.Bad(rule, f.String(), "signature", f.Pos(), "FindRange no longer takes (min, max)")
					continue
				}
				info, g := f.Info(), f.Graph()
				lo, hi := sig.Params().At(0), sig.Params().At(1)
				targets := g.Select(g.Calling(call(pkg + "." + t + "Array.search")))
				ordered := core.X1CmpEdge(core.X1IsObj(info, lo), core.X1IsObj(info, hi), core.X1LE)
				bad := g.X4OnlyVia(targets, nil, ordered)
				if len(targets) > 0 {
					n++
				}
				r.Check(len(targets) > 0 && len(bad) == 0, rule, f.String(), "search-without-order-test", f.Pos(),
					"the positions of min and max are searched only after min <= max was established (inverted range ⇒ (-1,-1))")
			}
			r.Check(n >= 6, rule, "tsdb/cursors/arrayvalues.gen.go", "functions:count", "-", "FindRange methods examined")
		})
}
