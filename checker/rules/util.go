package rules

import (
	"go/ast"
	"go/token"
)

// isLenMinusConst recognises `len(x) - c` / `n - c` with a literal c: an index
// that always designates the same (last) element, i.e. not a scan.
func isLenMinusConst(e ast.Expr) bool {
	be, ok := ast.Unparen(e).(*ast.BinaryExpr)
	if !ok || be.Op != token.SUB {
		return false
	}
	_, lit := ast.Unparen(be.Y).(*ast.BasicLit)
	return lit
}
