package rules

import (
	"go/ast"
	"go/token"
	"go/types"

	"verif/checker/core"
)

// assertFailedEdge selects the edges on which the `ok` of a comma-ok type
// assertion made in f is known to be false (the value does not have the type).
func assertFailedEdge(f *core.Func) core.EdgePred {
	info := f.Info()
	oks := map[types.Object]bool{}
	ast.Inspect(f.Decl.Body, func(n ast.Node) bool {
		if as, ok := n.(*ast.AssignStmt); ok && len(as.Lhs) == 2 && len(as.Rhs) == 1 {
			if _, isTA := ast.Unparen(as.Rhs[0]).(*ast.TypeAssertExpr); isTA {
				if o := core.ObjOf(info, as.Lhs[1]); o != nil {
					oks[o] = true
				}
			}
		}
		return true
	})
	return core.AtomEdge(func(x ast.Expr, val bool) bool {
		return !val && oks[core.ObjOf(info, x)]
	})
}

// isLenMinusConst recognises `len(x) - c` / `n - c` with a literal c: an index
// that always designates the same (last) element, i.e. not a scan.
func isLenMinusConst(e ast.Expr) bool {
	be, ok := ast.Unparen(e).(*ast.BinaryExpr)
	if !ok || be.Op != token.SUB {
		return false
	}
	_, lit := ast.Unparen(be.Y).(*ast.BasicLit)
	return lit
}
