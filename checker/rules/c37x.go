package rules

import (
	"go/ast"
	"go/token"
	"go/types"
	"strings"

	"verif/checker/core"
)

// The range bounds of the array algebra are closed and the extremes
// (math.MinInt64 / math.MaxInt64) are legal and common ("everything from min
// on"). A bound that is incremented or decremented wraps at an extreme and turns
// "keep all" into "keep nothing" (or vice versa); the algebra therefore has to
// treat its int64 bound parameters as values that are only compared or passed on.
func init() {
	extend("C37", "bound-arithmetic: in every method of the *Array types (tsdb/cursors/arrayvalues.gen.go) the int64 timestamp-bound parameters are only compared or passed on unchanged — never the operand of + or - (no max+1 / min-1: closed ranges must hold at math.MinInt64/MaxInt64).",
		nil, func(p *core.Prog, r *core.Report, tier string) {
			const rule = "bound-arithmetic"
			pk := p.Pkg("tsdb/cursors")
			if pk == nil {
				r.Bad("anchor", "tsdb/cursors", "unresolved", "-", "package not loaded")
				return
			}
			funcs, params := 0, 0
			for _, f := range p.Funcs("tsdb/cursors") {
				if f.Decl.Body == nil || f.Decl.Recv == nil || !strings.HasSuffix(p.File(f.Decl.Pos()), "arrayvalues.gen.go") {
					continue
				}
				sig, _ := f.Obj.Type().(*types.Signature)
				if sig == nil {
					continue
				}
				bounds := map[types.Object]bool{}
				for i := 0; i < sig.Params().Len(); i++ {
					v := sig.Params().At(i)
					if b, ok := v.Type().Underlying().(*types.Basic); ok && b.Kind() == types.Int64 {
						bounds[v] = true
					}
				}
				if len(bounds) == 0 {
					continue
				}
				funcs++
				params += len(bounds)
				info := f.Info()
				ok := true
				ast.Inspect(f.Decl.Body, func(n ast.Node) bool {
					switch x := n.(type) {
					case *ast.BinaryExpr:
						if x.Op == token.ADD || x.Op == token.SUB {
							for _, op := range []ast.Expr{x.X, x.Y} {
								if bounds[core.ObjOf(info, op)] {
									ok = false
									r.Saw(f)
									r.Bad(rule, f.String(), "bound-in-arithmetic", p.Pos(x.Pos()), "timestamp bound `"+core.ExprStr(op)+"` is used in `"+core.ExprStr(x)+"`: wraps at the int64 extremes")
								}
							}
						}
					case *ast.IncDecStmt:
						if bounds[core.ObjOf(info, x.X)] {
							ok = false
							r.Bad(rule, f.String(), "bound-in-arithmetic", p.Pos(x.Pos()), "timestamp bound is incremented/decremented")
						}
					case *ast.AssignStmt:
						if x.Tok == token.ADD_ASSIGN || x.Tok == token.SUB_ASSIGN {
							for _, l := range x.Lhs {
								if bounds[core.ObjOf(info, l)] {
									ok = false
									r.Bad(rule, f.String(), "bound-in-arithmetic", p.Pos(x.Pos()), "timestamp bound is modified in place")
								}
							}
						}
					}
					return true
				})
				_ = ok
			}
			r.Check(funcs >= 20, rule, "tsdb/cursors/arrayvalues.gen.go", "functions:count", "-", "methods with timestamp-bound parameters examined")
		})
}
