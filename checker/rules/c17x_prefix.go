package rules

import (
	"fmt"
	"go/ast"
	"go/token"
	"go/types"

	"verif/checker/core"
)

// cache-probe-exact-series ("a series stops being listed exactly when it has no
// remaining data"). After a delete, Engine.deleteSeriesRange decides per series
// key k of the batch whether the series keeps its index entry by probing the
// cache for values under the composite keys (series key + "#!~#" + field) of that
// series. Composite keys of ANOTHER series whose key merely starts with k
// (cpu,host=a / cpu,host=ab) share the byte prefix; a probe of such a key says
// nothing about k. Necessary condition: every probe `Cache.Values(key)` made
// inside the per-series loop is evaluated only where the series part of that key
// has been established EQUAL to the loop's series key (bytes.Equal true /
// bytes.Compare == 0 on an operand that is the loop variable), either on an edge
// leading to the probe or by an earlier conjunct of the same condition. A prefix
// test alone does not count.
func init() {
	extend("C17", "cache-probe-exact-series: in Engine.deleteSeriesRange every cache probe made inside the per-series reconciliation loop is evaluated only where the probed key's series part was established equal (bytes.Equal / bytes.Compare == 0) to the loop's series key — a key of another series that merely shares the byte prefix does not keep a data-less series in the index.",
		nil, func(p *core.Prog, r *core.Report, tier string) {
			const rule = "cache-probe-exact-series"
			f := r.Need(p, tsm1, "Engine.deleteSeriesRange")
			if f == nil {
				return
			}
			info := f.Info()
			g := f.Graph()
			probe := call("tsdb/engine/tsm1.Cache.Values")
			eq := call("bytes.Equal")
			cmp := call("bytes.Compare")
			// innermost enclosing `for _, k := range …` of a position
			loopVar := func(pos token.Pos) types.Object {
				var best *ast.RangeStmt
				ast.Inspect(f.Decl.Body, func(n ast.Node) bool {
					if rs, ok := n.(*ast.RangeStmt); ok && rs.Pos() <= pos && pos < rs.End() && rs.Value != nil {
						if best == nil || rs.Pos() > best.Pos() {
							best = rs
						}
					}
					return true
				})
				if best == nil {
					return nil
				}
				return core.ObjOf(info, best.Value)
			}
			mentions := func(e ast.Expr, o types.Object) bool {
				found := false
				ast.Inspect(e, func(y ast.Node) bool {
					if id, ok := y.(*ast.Ident); ok && core.ObjOf(info, id) == o {
						found = true
					}
					return !found
				})
				return found
			}
			// atom (x, val) establishes "some byte slice == k"
			equalsK := func(k types.Object) func(x ast.Expr, val bool) bool {
				return func(x ast.Expr, val bool) bool {
					x = ast.Unparen(x)
					if c, ok := x.(*ast.CallExpr); ok && eq(info, c) && len(c.Args) == 2 {
						return val && (mentions(c.Args[0], k) || mentions(c.Args[1], k))
					}
					if be, ok := x.(*ast.BinaryExpr); ok && (be.Op == token.EQL || be.Op == token.NEQ) {
						for _, side := range [][2]ast.Expr{{be.X, be.Y}, {be.Y, be.X}} {
							c, ok := ast.Unparen(side[0]).(*ast.CallExpr)
							tv, has := info.Types[side[1]]
							if ok && cmp(info, c) && len(c.Args) == 2 && has && tv.Value != nil && tv.Value.ExactString() == "0" &&
								(mentions(c.Args[0], k) || mentions(c.Args[1], k)) {
								return val == (be.Op == token.EQL)
							}
						}
					}
					return false
				}
			}
			// conjuncts established before `target` is evaluated inside one condition
			var establishedBefore func(cond ast.Expr, target ast.Node, val bool) ([]core.Atom, bool)
			establishedBefore = func(cond ast.Expr, target ast.Node, val bool) ([]core.Atom, bool) {
				cond = ast.Unparen(cond)
				inside := func(e ast.Expr) bool { return e.Pos() <= target.Pos() && target.End() <= e.End() }
				if be, ok := cond.(*ast.BinaryExpr); ok && (be.Op == token.LAND || be.Op == token.LOR) {
					if inside(be.X) {
						return establishedBefore(be.X, target, val)
					}
					if inside(be.Y) {
						// Y is evaluated only when X was true (&&) / false (||)
						here := core.AtomsOn(be.X, be.Op == token.LAND)
						more, ok := establishedBefore(be.Y, target, val)
						return append(here, more...), ok
					}
					return nil, false
				}
				return nil, inside(cond)
			}
			n := 0
			for _, c := range core.AllCalls(info, f.Decl.Body, probe) {
				k := loopVar(c.Pos())
				if k == nil {
					continue // probes outside a per-series loop are not reconciliation probes
				}
				// only loops over byte-slice keys ([][]byte)
				if sl, ok := k.Type().Underlying().(*types.Slice); !ok || !types.Identical(sl.Elem(), types.Typ[types.Byte]) {
					continue
				}
				nd := g.NodeOf(c)
				if nd == nil {
					continue
				}
				n++
				isEq := equalsK(k)
				ok := g.OnlyVia(nd, core.AtomEdge(isEq))
				if !ok {
					if cond, isExpr := nd.N.(ast.Expr); isExpr {
						if atoms, in := establishedBefore(cond, c, true); in {
							for _, a := range atoms {
								if isEq(a.X, a.Val) {
									ok = true
								}
							}
						}
					}
				}
				r.Check(ok, rule, f.String(), "probe-without-exact-match", p.Pos(c.Pos()), "the cache is probed for a key only where that key's series part equals the loop's series key")
			}
			r.Check(n >= 1, rule, f.String(), "probes:count", f.Pos(), fmt.Sprintf("%d cache probe(s) inside a per-series loop (>= 1 confirmed by reading)", n))
		})
}
