package rules

import (
	"fmt"
	"go/ast"
	"go/token"
	"go/types"

	"verif/checker/core"
)

// C19 extension (m3), written from the survivors of the generic fault enumeration.
//
//	retention-drop-polarity   in the mapping loop of MapShards a point is counted as dropped for
//	                          RetentionPolicyBound only behind the edge `p.Time() < cut-off` or
//	                          `list.ShardGroupAt(p.Time()) == nil`, and mapped only behind `group != nil`
//	dropped-report-complete   evaluated on the row (MapShards succeeded, Dropped() > 0) no exit of
//	                          WritePointsPrivileged that may report success is reachable without
//	                          building the PartialWriteError that carries Dropped()
func init() {
	extend("C19", "retention-drop-polarity: in the mapping loop of PointsWriter.MapShards AddDropped(p, …, RetentionPolicyBound) is reachable only through an edge establishing `p.Time().Before(cut-off)` or `list.ShardGroupAt(p.Time()) == nil` (a point inside the retention period that has a shard group is never rejected), and MapPoint only through `group != nil`; "+
		"dropped-report-complete: evaluated with `MapShards returned no error` and `mapping.Dropped() > 0`, every exit of WritePointsPrivileged that may report success passes the assignment of tsdb.PartialWriteError{Dropped: mapping.Dropped()} (an early return or an inverted guard cannot lose the report).",
		nil, func(p *core.Prog, r *core.Report, tier string) {
			m3DropPolarity(p, r)
			m3DroppedReportComplete(p, r)
		})
}

func m3DropPolarity(p *core.Prog, r *core.Report) {
	const rule = "retention-drop-polarity"
	f := r.Need(p, coordP, "PointsWriter.MapShards")
	pk := p.Pkg(coordP)
	if f == nil || pk == nil {
		return
	}
	info, g, body, name := f.Info(), f.Graph(), f.Decl.Body, f.String()
	fPoints := core.LookupField(pk.Types, "WritePointsRequest", "Points")
	rpBound, _ := pk.Types.Scope().Lookup("RetentionPolicyBound").(*types.Const)
	mapPoint := call(coordP + ".ShardMapping.MapPoint")
	addDropped := call(coordP + ".ShardMapping.AddDropped")
	groupAt := call(coordP + ".sgList.ShardGroupAt")
	pointTime := call("models.Point.Time")
	var mapLoop *ast.RangeStmt
	for _, l := range core.RangeOver(body, func(e ast.Expr) bool { return core.FieldOf(info, e) == fPoints }) {
		if len(core.AllCalls(info, l.Body, mapPoint)) > 0 {
			mapLoop = l
		}
	}
	if !r.Check(fPoints != nil && rpBound != nil && mapLoop != nil && mapLoop.Value != nil, rule, name, "mapping-loop:absent", f.Pos(), "the mapping loop over wp.Points found") {
		return
	}
	mp := core.ObjOf(info, mapLoop.Value)
	_, bodyN, _ := g.LoopNodes(mapLoop)
	if !r.Check(bodyN != nil && mp != nil, rule, name, "mapping-loop:absent", f.Pos(), "loop body located") {
		return
	}
	resolve := func(e ast.Expr) ast.Expr { return ast.Unparen(core.ResolveLocal(info, body, e)) }
	isTimeOfP := func(e ast.Expr) bool {
		c := core.AsCall(info, resolve(e), pointTime)
		return c != nil && core.ObjOf(info, core.Recv(c)) == mp
	}
	isGroupOfP := func(e ast.Expr) bool { // list.ShardGroupAt(p.Time()), possibly through a single-definition local
		c := core.AsCall(info, resolve(e), groupAt)
		return c != nil && len(c.Args) == 1 && isTimeOfP(c.Args[0])
	}
	inLoop := func(n *core.Node) bool { return n.N != nil && core.InRegion(n, mapLoop.Body) }
	nDrop := 0
	for _, n := range g.Nodes {
		if !inLoop(n) {
			continue
		}
		for _, c := range core.CallsIn(info, n.N, addDropped, core.WalkOpts{}) {
			if len(c.Args) != 3 {
				continue
			}
			if o, ok := core.BaseObj(info, c.Args[2]).(*types.Const); !ok || o != rpBound {
				continue
			}
			nDrop++
			cut := core.ObjOf(info, c.Args[1])
			if !r.Check(cut != nil, rule, name, "violated-bound", g.Line(n), "the bound reported with the dropped point is a variable (the cut-off)") {
				continue
			}
			isCut := func(e ast.Expr) bool { return core.ObjOf(info, e) == cut }
			expired := func(a ast.Expr, v bool) bool { return core.TimeLess(info, a, v, true, isTimeOfP, isCut) }
			noGroup := func(a ast.Expr, v bool) bool {
				x, nonNilOnTrue, ok := core.NilTest(info, a)
				return ok && isGroupOfP(x) && v != nonNilOnTrue
			}
			reach := g.Reach([]*core.Node{bodyN}, func(x *core.Node) bool { return !inLoop(x) && x.N != nil }, core.EdgeEstablishingM3(info, body, core.AnyFact(expired, noGroup)))
			if reach[n] {
				r.Bad(rule, name, "live-point-dropped", g.Line(n), "AddDropped(…, RetentionPolicyBound) is reachable without having established `p.Time() < cut-off` or `no shard group for p.Time()`: a point inside the retention period is rejected as outside retention")
			} else {
				r.Ok(rule, name+":drop", g.Line(n), "dropped only behind `older than the cut-off` / `no shard group`")
			}
		}
	}
	r.Check(nDrop >= 2, rule, name, "AddDropped:count", f.Pos(), fmt.Sprintf("%d AddDropped(…, RetentionPolicyBound) site(s) in the mapping loop (2 confirmed by reading)", nDrop))
	// MapPoint only with a group
	hasGroup := func(a ast.Expr, v bool) bool {
		x, nonNilOnTrue, ok := core.NilTest(info, a)
		return ok && isGroupOfP(x) && v == nonNilOnTrue
	}
	reach := g.Reach([]*core.Node{bodyN}, func(x *core.Node) bool { return !inLoop(x) && x.N != nil }, core.EdgeEstablishingM3(info, body, hasGroup))
	for _, n := range g.Nodes {
		if inLoop(n) && len(core.CallsIn(info, n.N, mapPoint, core.WalkOpts{})) > 0 {
			r.Check(!reach[n], rule, name, "MapPoint-without-group", g.Line(n), "MapPoint lies behind the edge on which list.ShardGroupAt(p.Time()) is not nil")
		}
	}
}

func m3DroppedReportComplete(p *core.Prog, r *core.Report) {
	const rule = "dropped-report-complete"
	f := r.Need(p, coordP, "PointsWriter.WritePointsPrivileged")
	if f == nil {
		return
	}
	info, g, name, body := f.Info(), f.Graph(), f.String(), f.Decl.Body
	dropped := call(coordP + ".ShardMapping.Dropped")
	ms := g.Select(g.Calling(call(coordP + ".PointsWriter.MapShards")))
	if !r.Check(len(ms) == 1, rule, name, "MapShards:absent", f.Pos(), "one MapShards call") {
		return
	}
	mn := ms[0]
	as, ok := mn.N.(*ast.AssignStmt)
	if !r.Check(ok && len(as.Lhs) == 2, rule, name, "MapShards-results", g.Line(mn), "mapping and error of MapShards are kept") {
		return
	}
	mapObj, errObj := core.ObjOf(info, as.Lhs[0]), core.ObjOf(info, as.Lhs[1])
	if !r.Check(mapObj != nil && errObj != nil, rule, name, "MapShards-results", g.Line(mn), "mapping and error of MapShards are variables") {
		return
	}
	isDroppedCall := func(e ast.Expr) bool {
		c := core.AsCall(info, core.ResolveLocal(info, body, e), dropped)
		return c != nil && core.ObjOf(info, core.Recv(c)) == mapObj
	}
	// the report: errVar = tsdb.PartialWriteError{…, Dropped: mapping.Dropped(), …}
	isReport := func(n *core.Node) bool {
		s, ok := n.N.(*ast.AssignStmt)
		if !ok || len(s.Lhs) != 1 || len(s.Rhs) != 1 {
			return false
		}
		cl := rw3Lit(s.Rhs[0])
		if cl == nil || !rw3IsNamed(info.TypeOf(cl), tsdbP, "PartialWriteError") {
			return false
		}
		for _, el := range cl.Elts {
			if kv, ok := el.(*ast.KeyValueExpr); ok {
				if k, ok := kv.Key.(*ast.Ident); ok && k.Name == "Dropped" && isDroppedCall(kv.Value) {
					return true
				}
			}
		}
		return false
	}
	if !r.Check(len(g.Select(isReport)) >= 1, rule, name, "report:absent", f.Pos(), "a tsdb.PartialWriteError carrying mapping.Dropped() is assigned") {
		return
	}
	sawGuard := false
	eq := func(a, b ast.Expr) (bool, bool) {
		if (core.ObjOf(info, a) == errObj && core.IsNilIdent(info, b)) || (core.ObjOf(info, b) == errObj && core.IsNilIdent(info, a)) {
			return true, true // MapShards succeeded; errObj is not reassigned before the report (checked below)
		}
		return false, false
	}
	leaf := func(e ast.Expr) (bool, bool) {
		x, op, c, ok := core.IntCmp(info, e)
		if !ok || !isDroppedCall(x) {
			return false, false
		}
		sawGuard = true
		ev := func(q int64) bool {
			switch op {
			case token.GTR:
				return q > c
			case token.GEQ:
				return q >= c
			case token.LSS:
				return q < c
			case token.LEQ:
				return q <= c
			case token.EQL:
				return q == c
			}
			return q != c
		}
		if ev(1) != ev(1000) {
			return false, false
		}
		return ev(1), true
	}
	for _, n := range g.Nodes { // pre-pass
		if e, ok := n.N.(ast.Expr); ok && len(n.Succ) == 2 {
			for _, a := range core.Atoms(e) {
				leaf(a)
			}
		}
	}
	r.Check(sawGuard, rule, name, "Dropped()-test:absent", f.Pos(), "mapping.Dropped() is compared with a constant")
	reach := g.ReachUnderM3(core.After(mn, nil), isReport, core.LeafResolvingM3(info, body, core.LeafWithEqM3(leaf, eq)), eq)
	// the error variable keeps MapShards' (nil) error until the report
	for n := range reach {
		if n != mn && !isReport(n) && g.AssigningObj(errObj)(n) {
			r.Bad(rule, name, "error-reassigned", g.Line(n), "the error variable of MapShards is reassigned before the dropped points are reported")
			return
		}
	}
	success := map[*core.Node]bool{}
	for _, x := range g.SuccessExits() {
		success[x] = true
	}
	bad := false
	for _, x := range core.ExitsInM3(reach) {
		if _, isRet := x.N.(*ast.ReturnStmt); !success[x] || !isRet {
			continue
		}
		bad = true
		r.Bad(rule, name, "dropped-not-reported", g.Line(x), "with points dropped as outside retention (Dropped() > 0) this exit may report success without the PartialWriteError that carries the dropped count having been built")
	}
	if !bad {
		r.Ok(rule, name, g.Line(mn), "row (MapShards ok, Dropped() > 0): every exit that may report success passes err = PartialWriteError{Dropped: mapping.Dropped()}")
	}
}
