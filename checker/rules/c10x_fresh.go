package rules

import (
	"fmt"
	"go/ast"

	"verif/checker/core"
)

// replay-uses-live-handle. MeasurementFieldSet.ApplyChanges replays the change
// log: field creations are applied to the *MeasurementFields of their
// measurement, measurement deletions remove that object from the set. A handle
// carried over from an earlier iteration may designate an object that a
// DeleteMeasurement change in between has detached from the set: creations
// applied to it are lost (or collide with the pre-drop type) and the recorded
// types do not survive the restart. Structural necessary condition: in every
// iteration that reaches MeasurementFields.CreateFieldIfNotExists, the receiver
// was obtained from MeasurementFieldSet.CreateFieldsIfNotExists in that same
// iteration (every path from the loop head to the use passes the lookup), and the
// lookup's result is the receiver.
func init() {
	extend("C10", "replay-uses-live-handle: in MeasurementFieldSet.ApplyChanges every path from the head of the replay loop to MeasurementFields.CreateFieldIfNotExists passes the lookup MeasurementFieldSet.CreateFieldsIfNotExists in the same iteration and the lookup's result is the receiver — a handle is never carried across a DeleteMeasurement change.",
		nil, func(p *core.Prog, r *core.Report, tier string) {
			const rule = "replay-uses-live-handle"
			f := r.Need(p, tsdbP, "MeasurementFieldSet.ApplyChanges")
			if f == nil {
				return
			}
			freshPerIteration(p, r, f, rule, call("tsdb.MeasurementFieldSet.CreateFieldsIfNotExists"), "CreateFieldsIfNotExists", call("tsdb.MeasurementFields.CreateFieldIfNotExists"), "CreateFieldIfNotExists", true)
		})
}

// freshPerIteration: every use call inside a loop is reached, from the head of
// every enclosing loop, only through a lookup call; with recvIsResult the
// receiver of the use is a variable whose only definitions are lookup calls.
func freshPerIteration(p *core.Prog, r *core.Report, f *core.Func, rule string, lookup core.Matcher, lname string, use core.Matcher, uname string, recvIsResult bool) {
	g := f.Graph()
	info := f.Info()
	lookups := g.Calling(lookup)
	uses := g.Select(g.Calling(use))
	if !r.Check(len(uses) >= 1 && len(g.Select(lookups)) >= 1, rule, f.String(), "shape", f.Pos(), fmt.Sprintf("%s and %s found", lname, uname)) {
		return
	}
	for _, u := range uses {
		var heads []*core.Node
		for _, n := range g.Nodes {
			if n.N == nil && g.Reach(core.After(n, nil), nil, nil)[n] && g.Reach([]*core.Node{n}, nil, nil)[u] && g.Reach(core.After(u, nil), nil, nil)[n] {
				heads = append(heads, n)
			}
		}
		if !r.Check(len(heads) >= 1, rule, f.String(), "loop:absent", g.Line(u), uname+" runs inside the replay loop") {
			continue
		}
		stale := false
		for _, h := range heads {
			if g.Reach(core.After(h, nil), lookups, nil)[u] {
				stale = true
			}
		}
		r.Check(!stale, rule, f.String(), "stale-handle", g.Line(u), "the handle is looked up in the same iteration on every path to "+uname)
		if !recvIsResult {
			continue
		}
		ok := false
		for _, c := range core.CallsIn(info, u.N, use, core.WalkOpts{}) {
			sel, isSel := ast.Unparen(c.Fun).(*ast.SelectorExpr)
			if !isSel {
				continue
			}
			o := core.ObjOf(info, ast.Unparen(sel.X))
			if o == nil {
				// the lookup call itself as receiver: fs.CreateFieldsIfNotExists(m).CreateFieldIfNotExists(…)
				if lc, isCall := ast.Unparen(sel.X).(*ast.CallExpr); isCall && lookup(info, lc) {
					ok = true
				}
				continue
			}
			defs, fromLookup := 0, 0
			ast.Inspect(f.Decl.Body, func(n ast.Node) bool {
				as, isAs := n.(*ast.AssignStmt)
				if !isAs {
					return true
				}
				for i, l := range as.Lhs {
					if core.ObjOf(info, l) != o {
						continue
					}
					defs++
					if len(as.Lhs) == len(as.Rhs) {
						if cc, isCall := ast.Unparen(as.Rhs[i]).(*ast.CallExpr); isCall && lookup(info, cc) {
							fromLookup++
						}
					}
				}
				return true
			})
			ok = defs >= 1 && defs == fromLookup
		}
		r.Check(ok, rule, f.String(), "receiver-not-the-lookup", g.Line(u), "the receiver of "+uname+" is the result of "+lname)
	}
}
