package rules

import (
	"fmt"
	"go/ast"
	"go/token"
	"go/types"
	"sort"
	"strings"

	"verif/checker/core"
)

// C36 — robin-hood hash map (pkg/rhh), bloom filter (pkg/bloom), radix tree
// (pkg/radix), series id set (tsdb/series_set.go).
//
// Conformance to a map/set model is value-level. The narrow structural necessary
// conditions decided here are KEY-FUNCTION AGREEMENT (writer and reader of a
// structure compute the slot of a key the same way), MONOTONICITY of the bloom
// bits, REHASH COMPLETENESS of HashMap.Grow, COUNTER ACCOUNTING of the two size
// counters, the SORTED-EDGE single-writer discipline of the radix tree, and for
// SeriesIDSet the DELEGATION TABLE (each operation calls the roaring operation
// its name states, on the right operands, under the locks it needs, and leaves no
// lock behind).
const (
	rhhP    = "pkg/rhh"
	bloomP  = "pkg/bloom"
	radixP  = "pkg/radix"
	roaring = "github.com/RoaringBitmap/roaring"
)

func init() {
	register(&Prop{
		ID:       "C36",
		Patterns: []string{"./pkg/rhh", "./pkg/bloom", "./pkg/radix", "./tsdb"},
		Level:    "other",
		Explanation: "Narrow structural necessary conditions of the four index / id-set structures, decided on resolved callees, fields and CFG paths: " +
			"(1) bloom-key-agreement: Filter.Insert and Filter.Contains hash the same argument with the same function, run the same probe loop (init, bound k, step), compute the bit location with the same call and address the same byte and bit of Filter.b (compared up to renaming of locals); Contains answers false only under a zero test of that bit; " +
			"(2) bloom-monotone: outside construction every store into Filter.b is an OR (`|=`), never an assignment, copy or clear, so a set bit is never lost; Merge ORs other.b[i] into f.b[i] and only after len(f.b) == len(other.b) and f.k == other.k were established; " +
			"(3) rhh-key-agreement: HashMap.put hands insert HashKey(key) of the key it stores, HashMap.index looks up with HashKey(key); insert and index derive the first slot and the next slot by the same expressions over the same mask field, measure displacement with the same Dist call, test the same empty-slot sentinel and compare the same stored key; HashKey never returns the empty-slot sentinel 0; " +
			"(4) rhh-grow: HashMap.Grow saves the old arrays and capacity before it changes capacity, allocates after it, and every iteration over the OLD capacity re-inserts the element from the OLD arrays unless its hash is the empty sentinel; alloc sizes both arrays and derives mask and threshold; " +
			"(5) rhh-count: put increments n and tests the threshold (growing) before insert, and takes the increment back exactly when insert reports an overwrite; " +
			"(6) radix-edges: node.edges is written only by addEdge (sorted insert), mergeChild and deletePrefix, and Tree.Insert/Get/deletePrefix select a child only through node.getEdge, whose binary search relies on that order; " +
			"(7) radix-size: Tree.Insert passes exactly one size increment on every path that reports an insertion and none on the path that reports an existing key; " +
			"(8) set-delegate: every SeriesIDSet operation reaches, on every non-trivial path, the roaring operation its name states with the operands in the stated order (And→roaring.And(s,o), AndNot/Diff→roaring.AndNot(s,o), Merge→FastOr over s and every other, MergeInPlace→Or, Clone→Clone, WriteTo/UnmarshalBinary/UnmarshalBinaryUnsafe→WriteTo/UnmarshalBinary/FromBuffer …) and in-place operations store the result into s.bitmap; " +
			"(9) set-locks: every locking SeriesIDSet method touches X.bitmap (and calls X.…NoLock) only while holding X's embedded RWMutex, in write mode for a mutation, and returns with no lock held; " +
			"(10) set-alias: a method that write-locks the receiver while it holds a lock of a *SeriesIDSet argument first excludes receiver == argument (sync.RWMutex is not re-entrant: s.Op(s) would block forever).",
		NotCovered:  "Conformance of the structures to a map / set / sorted-map model as a function of the stored VALUES is value-level and NOT decided: the robin-hood displacement invariant and swap logic of insert, load-factor arithmetic, the bloom false-positive rate and the double-hashing formula itself, radix prefix splitting / mergeChild / DeletePrefix results and the ordering of Walk (Minimum/Maximum: only the structural clause radix-extremes), the uint64→uint32 truncation of series ids, and the roaring library itself. Lock ORDER between two sets (And takes s then other, Diff other then s) and re-entrant read locks (s.And(s)) only matter under concurrent writers and are not decided; radix.Tree.Insert mutates under a read lock, which is a concurrency question outside this (sequential) property.",
		Assumptions: []string{"roaring.And/AndNot/FastOr/Or/Clone implement the set operation of their name", "a rule passing means the mechanism is in place on every CFG path, not that the results are value-correct"},
		Run:         runC36,
	})
}

func runC36(p *core.Prog, r *core.Report, tier string) {
	c36Bloom(p, r)
	c36Rhh(p, r)
	c36Radix(p, r)
	c36SetDelegate(p, r)
	c36SetLocks(p, r)
	c36SetAlias(p, r)
}

// ================================================================ bloom

func c36Bloom(p *core.Prog, r *core.Report) {
	pk := p.Pkg(bloomP)
	if !r.Check(pk != nil, "anchor", bloomP, "unresolved", "", "package loaded") {
		return
	}
	bF, kF := core.LookupField(pk.Types, "Filter", "b"), core.LookupField(pk.Types, "Filter", "k")
	if !r.Check(bF != nil && kF != nil, "anchor", bloomP+".Filter.b/k", "unresolved", "", "fields resolved") {
		return
	}
	// ---- (1) key agreement
	const rule = "bloom-key-agreement"
	fi, fc := r.Need(p, bloomP, "Filter.Insert"), r.Need(p, bloomP, "Filter.Contains")
	if fi != nil && fc != nil {
		ii, ic := fi.Info(), fc.Info()
		al := core.NewAlpha14(ii, ic)
		al.Tie(fi.X1Recv(), fc.X1Recv())
		al.Tie(fi.X1Param(0), fc.X1Param(0))
		pair := func(what string, m core.Matcher) {
			ci, cc := core.AllCalls(ii, fi.Decl.Body, m), core.AllCalls(ic, fc.Decl.Body, m)
			if !r.Check(len(ci) == 1 && len(cc) == 1, rule, "Insert/Contains", what+":not-exactly-one-call", fi.Pos(), fmt.Sprintf("%d / %d calls of %s", len(ci), len(cc), what)) {
				return
			}
			// tie the variables the results are stored in
			li, lc := resultVar(ii, fi.Decl.Body, ci[0]), resultVar(ic, fc.Decl.Body, cc[0])
			okTie := li != nil && lc != nil && al.Tie(li, lc)
			r.Check(okTie && al.Eq(ci[0], cc[0]), rule, "Insert/Contains", what+":differs", p.Pos(cc[0].Pos()),
				"Insert: "+core.ExprStr(ci[0])+"   Contains: "+core.ExprStr(cc[0]))
		}
		pair("hash", call(bloomP+".Filter.hash"))
		pair("location", call(bloomP+".Filter.location"))
		// probe loop header
		li, lc := forLoops(fi.Decl.Body), forLoops(fc.Decl.Body)
		if r.Check(len(li) == 1 && len(lc) == 1, rule, "Insert/Contains", "probe-loop:not-exactly-one", fi.Pos(), "one probe loop each") {
			r.Check(sameLoopHeader(al, li[0], lc[0]), rule, "Insert/Contains", "probe-loop:header-differs", p.Pos(lc[0].Pos()),
				"both loops run i from the same start to the same bound (k) with the same step")
		}
		// bit addressing: Insert `f.b[IDX] |= MASK`, Contains `f.b[IDX] & MASK`
		var insLhs, insRhs ast.Expr
		ast.Inspect(fi.Decl.Body, func(n ast.Node) bool {
			if as, ok := n.(*ast.AssignStmt); ok && len(as.Lhs) == 1 && len(as.Rhs) == 1 {
				if ix, ok := ast.Unparen(as.Lhs[0]).(*ast.IndexExpr); ok && core.FieldOf(ii, ix.X) == bF {
					insLhs, insRhs = as.Lhs[0], as.Rhs[0]
				}
			}
			return true
		})
		var conX, conY ast.Expr
		var conAnd *ast.BinaryExpr
		ast.Inspect(fc.Decl.Body, func(n ast.Node) bool {
			if be, ok := n.(*ast.BinaryExpr); ok && be.Op == token.AND {
				if ix, ok := ast.Unparen(be.X).(*ast.IndexExpr); ok && core.FieldOf(ic, ix.X) == bF {
					conX, conY, conAnd = be.X, be.Y, be
				}
			}
			return true
		})
		if r.Check(insLhs != nil && conX != nil, rule, "Insert/Contains", "bit-access:shape-unrecognised", fi.Pos(), "Insert stores into f.b[…], Contains masks f.b[…]") {
			r.Check(al.Eq(insLhs, conX), rule, "Insert/Contains", "byte-index:differs", p.Pos(conX.Pos()), "Insert: "+core.ExprStr(insLhs)+"   Contains: "+core.ExprStr(conX))
			r.Check(al.Eq(insRhs, conY), rule, "Insert/Contains", "bit-mask:differs", p.Pos(conY.Pos()), "Insert: "+core.ExprStr(insRhs)+"   Contains: "+core.ExprStr(conY))
			// Contains says "absent" only under bit == 0
			g := fc.Graph()
			isBit := func(e ast.Expr) bool { return ast.Unparen(e) == ast.Expr(conAnd) }
			zero := core.X1CmpEdge(isBit, core.X1IsIntConst(ic, 0), core.X1EQ)
			noZero := g.ReachFromEntry(nil, zero)
			nF := 0
			for _, x := range g.Exits {
				rs, ok := x.N.(*ast.ReturnStmt)
				if !ok || len(rs.Results) != 1 {
					continue
				}
				if core.X1IsConstBool(ic, rs.Results[0], false) {
					nF++
					r.Check(!noZero[x], rule, fc.String(), "absent-only-under-zero-bit", g.Line(x), "`return false` is reached only when a probed bit is 0")
				} else {
					r.Check(core.X1IsConstBool(ic, rs.Results[0], true), rule, fc.String(), "result-not-constant", g.Line(x), "Contains returns constants")
				}
			}
			r.Check(nF >= 1, rule, fc.String(), "return-false:absent", fc.Pos(), "Contains can answer absent")
		}
	}
	// ---- (2) monotone bits
	const rule2 = "bloom-monotone"
	nStores := 0
	for _, f := range p.Funcs(bloomP) {
		if f.Decl.Body == nil {
			continue
		}
		info := f.Info()
		recv := f.X1Recv()
		ast.Inspect(f.Decl.Body, func(n ast.Node) bool {
			switch s := n.(type) {
			case *ast.AssignStmt:
				for _, l := range s.Lhs {
					l = ast.Unparen(l)
					if ix, ok := l.(*ast.IndexExpr); ok && core.FieldOf(info, ix.X) == bF {
						nStores++
						r.Check(s.Tok == token.OR_ASSIGN, rule2, f.String(), "store-is-not-OR", p.Pos(s.Pos()), "element store into Filter.b uses "+s.Tok.String())
					} else if core.FieldOf(info, l) == bF {
						r.Bad(rule2, f.String(), "bit-array-replaced", p.Pos(s.Pos()), "Filter.b is assigned outside a constructor literal")
					}
				}
			case *ast.IncDecStmt:
				if ix, ok := ast.Unparen(s.X).(*ast.IndexExpr); ok && core.FieldOf(info, ix.X) == bF {
					r.Bad(rule2, f.String(), "store-is-not-OR", p.Pos(s.Pos()), "element of Filter.b changed with "+s.Tok.String())
				}
			case *ast.CallExpr:
				if (core.Builtin("copy")(info, s) || core.Builtin("clear")(info, s)) && len(s.Args) >= 1 {
					dst := ast.Unparen(s.Args[0])
					if sl, ok := dst.(*ast.SliceExpr); ok {
						dst = ast.Unparen(sl.X)
					}
					if core.FieldOf(info, dst) == bF && recv != nil && core.X1RootObj(info, dst) == types.Object(recv) {
						r.Bad(rule2, f.String(), "bits-overwritten", p.Pos(s.Pos()), "copy/clear into the receiver's bit array")
					}
				}
			}
			return true
		})
	}
	r.Check(nStores >= 2, rule2, bloomP, "stores:fewer-than-confirmed", "", fmt.Sprintf("%d element stores into Filter.b (2 confirmed: Insert, Merge)", nStores))
	if f := r.Need(p, bloomP, "Filter.Merge"); f != nil {
		g, info := f.Graph(), f.Info()
		recv, other := types.Object(f.X1Recv()), types.Object(f.X1Param(0))
		stores := g.Select(g.Assigning(bF))
		r.Check(len(stores) == 1, rule2, f.String(), "merge-store:not-exactly-one", f.Pos(), fmt.Sprintf("%d stores", len(stores)))
		lenOf := func(root types.Object) func(ast.Expr) bool { return core.X1IsLenOf(info, fieldOfRoot(info, root, bF)) }
		sameLen := core.X1CmpEdge(lenOf(recv), lenOf(other), core.X1EQ)
		sameK := core.X1CmpEdge(fieldOfRoot(info, recv, kF), fieldOfRoot(info, other, kF), core.X1EQ)
		for _, s := range stores {
			as, ok := s.N.(*ast.AssignStmt)
			if !ok || len(as.Lhs) != 1 || len(as.Rhs) != 1 {
				continue
			}
			li, lok := ast.Unparen(as.Lhs[0]).(*ast.IndexExpr)
			ri, rok := ast.Unparen(as.Rhs[0]).(*ast.IndexExpr)
			okOps := lok && rok && fieldOfRoot(info, recv, bF)(ast.Unparen(li.X)) && fieldOfRoot(info, other, bF)(ast.Unparen(ri.X)) && core.SameExpr(info, li.Index, ri.Index)
			r.Check(okOps, rule2, f.String(), "merge-store:operands", g.Line(s), "f.b[i] |= other.b[i] with the same index")
			r.Check(g.OnlyVia(s, sameLen), rule2, f.String(), "merge:size-check-first", g.Line(s), "bits are merged only after len(f.b) == len(other.b)")
			r.Check(g.OnlyVia(s, sameK), rule2, f.String(), "merge:k-check-first", g.Line(s), "bits are merged only after f.k == other.k (same probe count)")
		}
		// the loop covers the whole array
		rng := g.X1Ranging(func(rs *ast.RangeStmt) bool {
			x := ast.Unparen(rs.X)
			return fieldOfRoot(info, recv, bF)(x) || fieldOfRoot(info, other, bF)(x)
		})
		core.RuleMustPassN(r, f, g, rule2, "range over the whole bit array", rng,
			core.X1OrEdges(core.X1NilEdge(info, core.X1IsObj(info, other), true)))
	}
}

// resultVar returns the local variable a call's (single) result is assigned to.
func resultVar(info *types.Info, body ast.Node, c *ast.CallExpr) types.Object {
	var out types.Object
	ast.Inspect(body, func(n ast.Node) bool {
		if as, ok := n.(*ast.AssignStmt); ok && len(as.Lhs) == 1 && len(as.Rhs) == 1 && ast.Unparen(as.Rhs[0]) == ast.Expr(c) {
			out = core.ObjOf(info, as.Lhs[0])
		}
		return true
	})
	return out
}

func forLoops(body ast.Node) []*ast.ForStmt {
	var out []*ast.ForStmt
	ast.Inspect(body, func(n ast.Node) bool {
		if _, ok := n.(*ast.FuncLit); ok {
			return false
		}
		if fs, ok := n.(*ast.ForStmt); ok {
			out = append(out, fs)
		}
		return true
	})
	return out
}

func sameLoopHeader(al *core.Alpha14, a, b *ast.ForStmt) bool {
	ai, ok1 := a.Init.(*ast.AssignStmt)
	bi, ok2 := b.Init.(*ast.AssignStmt)
	if !ok1 || !ok2 || len(ai.Lhs) != 1 || len(bi.Lhs) != 1 || len(ai.Rhs) != 1 || len(bi.Rhs) != 1 {
		return false
	}
	if !al.Eq(ai.Lhs[0], bi.Lhs[0]) || !al.Eq(ai.Rhs[0], bi.Rhs[0]) || !al.Eq(a.Cond, b.Cond) {
		return false
	}
	ap, ok1 := a.Post.(*ast.IncDecStmt)
	bp, ok2 := b.Post.(*ast.IncDecStmt)
	return ok1 && ok2 && ap.Tok == bp.Tok && al.Eq(ap.X, bp.X)
}

// ================================================================ rhh

func c36Rhh(p *core.Prog, r *core.Report) {
	pk := p.Pkg(rhhP)
	if !r.Check(pk != nil, "anchor", rhhP, "unresolved", "", "package loaded") {
		return
	}
	fld := func(n string) *types.Var {
		v := core.LookupField(pk.Types, "HashMap", n)
		r.Check(v != nil, "anchor", rhhP+".HashMap."+n, "unresolved", "", "field resolved")
		return v
	}
	hashesF, elemsF, capF, maskF, thrF, nF := fld("hashes"), fld("elems"), fld("capacity"), fld("mask"), fld("threshold"), fld("n")
	if hashesF == nil || elemsF == nil || capF == nil || maskF == nil || thrF == nil || nF == nil {
		return
	}
	hashKey := call(rhhP + ".HashKey")
	insertM := call(rhhP + ".HashMap.insert")
	fPut, fIns, fIdx := r.Need(p, rhhP, "HashMap.put"), r.Need(p, rhhP, "HashMap.insert"), r.Need(p, rhhP, "HashMap.index")

	// ---- (3) key agreement
	const rule = "rhh-key-agreement"
	if fPut != nil && fIns != nil && fIdx != nil {
		// put -> insert(HashKey(key), key, …)
		ip := fPut.Info()
		cs := core.AllCalls(ip, fPut.Decl.Body, insertM)
		if r.Check(len(cs) == 1 && len(cs[0].Args) == 3, rule, fPut.String(), "insert-call:not-exactly-one", fPut.Pos(), "put calls insert once") {
			key := types.Object(fPut.X1Param(0))
			hc := core.AsCall(ip, cs[0].Args[0], hashKey)
			ok := hc != nil && len(hc.Args) == 1 && core.ObjOf(ip, hc.Args[0]) == key && core.ObjOf(ip, cs[0].Args[1]) == key
			r.Check(ok, rule, fPut.String(), "stored-under-HashKey(key)", p.Pos(cs[0].Pos()), "insert("+core.ExprStr(cs[0].Args[0])+", "+core.ExprStr(cs[0].Args[1])+", …): the hash is HashKey of the very key that is stored")
		}
		// index: hash := HashKey(key)
		ix := fIdx.Info()
		hcs := core.AllCalls(ix, fIdx.Decl.Body, hashKey)
		var idxHash types.Object
		if r.Check(len(hcs) == 1 && len(hcs[0].Args) == 1 && core.ObjOf(ix, hcs[0].Args[0]) == types.Object(fIdx.X1Param(0)), rule, fIdx.String(), "looked-up-under-HashKey(key)", fIdx.Pos(), "index hashes its key parameter with HashKey") {
			idxHash = resultVar(ix, fIdx.Decl.Body, hcs[0])
		}
		// probe sequence: insert vs index
		ii := fIns.Info()
		al := core.NewAlpha14(ii, ix)
		al.Tie(fIns.X1Recv(), fIdx.X1Recv())
		okTie := idxHash != nil && al.Tie(fIns.X1Param(0), idxHash)
		posI, posX := slotVar(ii, fIns.Decl.Body, hashesF), slotVar(ix, fIdx.Decl.Body, hashesF)
		okTie = okTie && posI != nil && posX != nil && al.Tie(posI, posX)
		if r.Check(okTie, rule, "insert/index", "probe-variables:unresolved", fIns.Pos(), "hash and slot variables of insert and index resolved (every m.hashes[…] is indexed by one variable)") {
			di, oi := core.AssignedExprs14(ii, fIns.Decl.Body, posI)
			dx, ox := core.AssignedExprs14(ix, fIdx.Decl.Body, posX)
			ok := !oi && !ox && len(di) == len(dx) && len(di) >= 2
			if ok {
				for k := range di {
					ok = ok && al.Eq(di[k], dx[k]) && core.X1MentionsField(ii, di[k], maskF)
				}
			}
			r.Check(ok, rule, "insert/index", "slot-sequence:differs", fIdx.Pos(),
				"first slot and next slot: insert "+exprList(di)+"   index "+exprList(dx)+" (same expressions over HashMap.mask)")
			cmpCalls := func(what string, m core.Matcher, arg int) {
				a, b := core.AllCalls(ii, fIns.Decl.Body, m), core.AllCalls(ix, fIdx.Decl.Body, m)
				if !r.Check(len(a) >= 1 && len(b) >= 1, rule, "insert/index", what+":absent", fIdx.Pos(), what+" used by both") {
					return
				}
				ok := true
				for _, x := range a {
					for _, y := range b {
						if arg < 0 {
							ok = ok && al.Eq(x, y)
						} else {
							ok = ok && len(x.Args) > arg && len(y.Args) > arg && al.Eq(x.Args[arg], y.Args[arg])
						}
					}
				}
				r.Check(ok, rule, "insert/index", what+":differs", p.Pos(b[0].Pos()), "insert: "+core.ExprStr(a[0])+"   index: "+core.ExprStr(b[0]))
			}
			cmpCalls("Dist", call(rhhP+".Dist"), -1)
			cmpCalls("stored-key-compare", call("bytes.Equal"), 0)
			// empty-slot sentinel
			ea, eb := sentinelTests(ii, fIns.Decl.Body, hashesF), sentinelTests(ix, fIdx.Decl.Body, hashesF)
			ok = len(ea) >= 1 && len(eb) >= 1
			for _, x := range ea {
				for _, y := range eb {
					ok = ok && al.Eq(x, y)
				}
			}
			r.Check(ok, rule, "insert/index", "empty-slot-test:differs", fIdx.Pos(), "both treat m.hashes[slot] == 0 as the empty slot")
		}
	}
	if f := r.Need(p, rhhP, "HashKey"); f != nil {
		g, info := f.Graph(), f.Info()
		// every return value variable: non-zero established or a non-zero constant assigned
		n := 0
		for _, x := range g.Exits {
			rs, ok := x.N.(*ast.ReturnStmt)
			if !ok || len(rs.Results) != 1 {
				continue
			}
			n++
			v := core.ObjOf(info, rs.Results[0])
			if !r.Check(v != nil, rule, f.String(), "result-not-a-variable", g.Line(x), "HashKey returns a local") {
				continue
			}
			isV, zero := core.X1IsObj(info, v), core.X1IsIntConst(info, 0)
			nonZeroStore := func(m *core.Node) bool {
				as, ok := m.N.(*ast.AssignStmt)
				if !ok || as.Tok != token.ASSIGN || len(as.Lhs) != 1 || len(as.Rhs) != 1 || core.ObjOf(info, as.Lhs[0]) != v {
					return false
				}
				c, isC := core.ConstInt(info, as.Rhs[0])
				return isC && c != 0
			}
			reach := g.ReachFromEntry(nonZeroStore, core.X1CmpEdge(isV, zero, core.X1NE))
			r.Check(!reach[x], rule, f.String(), "never-returns-empty-sentinel", g.Line(x), "every path to the return establishes h != 0 or assigns a non-zero constant (0 marks an empty slot)")
		}
		r.Check(n >= 1, rule, f.String(), "return:absent", f.Pos(), "HashKey returns")
	}

	// ---- (4) grow
	const rule4 = "rhh-grow"
	if f := r.Need(p, rhhP, "HashMap.Grow"); f != nil && fIns != nil {
		g, info := f.Graph(), f.Info()
		recv := types.Object(f.X1Recv())
		capStores := g.Select(func(n *core.Node) bool {
			as, ok := n.N.(*ast.AssignStmt)
			return ok && len(as.Lhs) == 1 && fieldOfRoot(info, recv, capF)(ast.Unparen(as.Lhs[0]))
		})
		allocs := g.Select(g.Calling(call(rhhP + ".HashMap.alloc")))
		ins := g.Select(g.Calling(insertM))
		if r.Check(len(capStores) == 1 && len(allocs) == 1 && len(ins) == 1, rule4, f.String(), "shape-unrecognised", f.Pos(),
			fmt.Sprintf("%d capacity stores, %d alloc calls, %d insert calls (1 each confirmed)", len(capStores), len(allocs), len(ins))) {
			capStore, alloc, insN := capStores[0], allocs[0], ins[0]
			// locals holding the old state: defined from m.elems / m.hashes / m.capacity
			olds := map[*types.Var]types.Object{}
			oldDef := map[types.Object]*core.Node{}
			for _, nd := range g.Nodes {
				as, ok := nd.N.(*ast.AssignStmt)
				if !ok || len(as.Lhs) != len(as.Rhs) {
					continue
				}
				for i := range as.Lhs {
					for _, fv := range []*types.Var{elemsF, hashesF, capF} {
						if fieldOfRoot(info, recv, fv)(ast.Unparen(as.Rhs[i])) {
							if o := core.ObjOf(info, as.Lhs[i]); o != nil && core.ObjOf(info, as.Lhs[i]) != recv {
								olds[fv], oldDef[o] = o, nd
							}
						}
					}
				}
			}
			if r.Check(len(olds) == 3, rule4, f.String(), "old-state:not-saved", f.Pos(), "old elems, hashes and capacity are copied into locals") {
				beforeCap := g.ReachFromEntry(func(n *core.Node) bool { return n == capStore }, nil)
				for fv, o := range olds {
					r.Check(beforeCap[oldDef[o]] && !g.Reach(core.X1Succs(capStore), nil, nil)[oldDef[o]], rule4, f.String(), "saved-before-resize:"+fv.Name(), g.Line(oldDef[o]),
						"old "+fv.Name()+" is saved before capacity changes")
				}
				// order: capacity store < alloc < insert
				r.Check(!g.ReachFromEntry(func(n *core.Node) bool { return n == capStore }, nil)[alloc], rule4, f.String(), "capacity<alloc", g.Line(alloc), "alloc runs only after the new capacity is stored")
				r.Check(!g.ReachFromEntry(func(n *core.Node) bool { return n == alloc }, nil)[insN], rule4, f.String(), "alloc<insert", g.Line(insN), "elements are re-inserted only into the newly allocated arrays")
				// the re-insert reads the OLD arrays and never the receiver's
				c := core.AllCalls(info, f.Decl.Body, insertM)[0]
				okArgs := len(c.Args) == 3
				usedOld := map[types.Object]bool{}
				for _, a := range c.Args {
					// follow single-definition locals down to the array they read from
					root := core.X1RootObj(info, a)
					for hop := 0; hop < 4 && root != nil; hop++ {
						if core.X1MentionsObj(info, a, recv) {
							okArgs = false
						}
						usedOld[root] = true
						if root == olds[hashesF] || root == olds[elemsF] || root == olds[capF] {
							break // reached a saved local: reading the old state is the point
						}
						d, single := core.SingleDef(info, f.Decl.Body, root)
						if !single || d.Rhs == nil || d.Index >= 0 {
							break
						}
						a = d.Rhs
						root = core.X1RootObj(info, a)
					}
				}
				r.Check(okArgs && usedOld[olds[hashesF]] && usedOld[olds[elemsF]], rule4, f.String(), "reinsert-from-old-arrays", p.Pos(c.Pos()),
					"insert("+exprList(c.Args)+") takes hash from the saved hashes and key/value from the saved elems")
				// loop bound is the old capacity; every iteration re-inserts unless hash == 0
				loops := forLoops(f.Decl.Body)
				if r.Check(len(loops) == 1, rule4, f.String(), "loop:not-exactly-one", f.Pos(), "one rehash loop") {
					lp := loops[0]
					isOldCap := core.X1IsObj(info, olds[capF])
					bound := false
					if be, ok := ast.Unparen(lp.Cond).(*ast.BinaryExpr); ok && be.Op == token.LSS && isOldCap(ast.Unparen(be.Y)) {
						bound = true
					}
					r.Check(bound, rule4, f.String(), "loop-bound-is-old-capacity", p.Pos(lp.Pos()), "the rehash loop runs i < (saved) old capacity")
					// the hash tested against the sentinel is the one re-inserted
					hashArg := core.ObjOf(info, c.Args[0])
					exempt := core.X1CmpEdge(core.X1IsObj(info, hashArg), core.X1IsIntConst(info, 0), core.X1EQ)
					esc, ok := g.IterEscapes12(lp, func(n *core.Node) bool { return n == insN }, exempt)
					r.Check(ok && hashArg != nil && len(esc) == 0, rule4, f.String(), "every-live-slot-reinserted", p.Pos(lp.Pos()),
						fmt.Sprintf("every iteration reaches insert unless the slot's hash is 0 (%d escaping paths)", len(esc)))
				}
			}
		}
	}
	if f := r.Need(p, rhhP, "HashMap.alloc"); f != nil {
		g, info := f.Graph(), f.Info()
		recv := types.Object(f.X1Recv())
		isCap := fieldOfRoot(info, recv, capF)
		for _, fv := range []*types.Var{elemsF, hashesF} {
			ok := false
			for _, nd := range g.Select(g.Assigning(fv)) {
				if as, isAs := nd.N.(*ast.AssignStmt); isAs && len(as.Rhs) == 1 {
					if c, isC := ast.Unparen(as.Rhs[0]).(*ast.CallExpr); isC && core.Builtin("make")(info, c) && len(c.Args) == 2 && isCap(ast.Unparen(c.Args[1])) {
						ok = true
					}
				}
			}
			r.Check(ok, rule4, f.String(), "sized-by-capacity:"+fv.Name(), f.Pos(), fv.Name()+" = make(…, m.capacity)")
		}
		for _, fv := range []*types.Var{maskF, thrF} {
			ok := false
			for _, nd := range g.Select(g.Assigning(fv)) {
				if as, isAs := nd.N.(*ast.AssignStmt); isAs && len(as.Rhs) == 1 && core.X1MentionsField(info, as.Rhs[0], capF) {
					ok = true
				}
			}
			r.Check(ok, rule4, f.String(), "derived-from-capacity:"+fv.Name(), f.Pos(), fv.Name()+" is recomputed from m.capacity")
		}
	}

	// ---- (5) count
	const rule5 = "rhh-count"
	if f := fPut; f != nil {
		g, info := f.Graph(), f.Info()
		recv := types.Object(f.X1Recv())
		isN := fieldOfRoot(info, recv, nF)
		incdec := func(tok token.Token) core.NodePred {
			return func(n *core.Node) bool {
				s, ok := n.N.(*ast.IncDecStmt)
				return ok && s.Tok == tok && isN(ast.Unparen(s.X))
			}
		}
		incs, decs := g.Select(incdec(token.INC)), g.Select(incdec(token.DEC))
		ins := g.Select(g.Calling(insertM))
		grows := g.Select(g.Calling(call(rhhP + ".HashMap.Grow")))
		if r.Check(len(incs) == 1 && len(decs) == 1 && len(ins) == 1 && len(grows) == 1, rule5, f.String(), "shape-unrecognised", f.Pos(),
			fmt.Sprintf("%d n++, %d n--, %d insert, %d Grow (1 each confirmed)", len(incs), len(decs), len(ins), len(grows))) {
			inc, dec, insN, grow := incs[0], decs[0], ins[0], grows[0]
			r.Check(!g.ReachFromEntry(func(n *core.Node) bool { return n == inc }, nil)[insN], rule5, f.String(), "n++<insert", g.Line(insN), "the element is counted before insert")
			// the threshold test sits between n++ and insert on every path
			isThr := fieldOfRoot(info, recv, thrF)
			thrTest := func(n *core.Node) bool {
				e, ok := n.N.(ast.Expr)
				if !ok {
					return false
				}
				x, y, _, okc := core.X1CmpAtom(e)
				return okc && ((isN(x) && isThr(y)) || (isN(y) && isThr(x)))
			}
			r.Check(len(g.Select(thrTest)) >= 1 && !g.Reach(core.X1Succs(inc), thrTest, nil)[insN], rule5, f.String(), "threshold-test<insert", g.Line(insN), "between n++ and insert every path compares n with the threshold")
			r.Check(g.OnlyVia(grow, core.X1CmpEdge(isN, isThr, core.X1GT)) && !g.Reach(core.X1Succs(insN), nil, nil)[grow], rule5, f.String(), "Grow-before-insert", g.Line(grow), "Grow runs under n > threshold and before insert, so insert always finds a free slot")
			// n-- exactly when insert reports an overwrite
			ov := resultVar(info, f.Decl.Body, core.AllCalls(info, f.Decl.Body, insertM)[0])
			if r.Check(ov != nil, rule5, f.String(), "overwritten:unresolved", g.Line(insN), "insert's result is kept") {
				isOv := core.X1IsObj(info, ov)
				r.Check(g.OnlyVia(dec, core.X1BoolEdge(isOv, true)), rule5, f.String(), "n--only-when-overwritten", g.Line(dec), "the count is taken back only for an overwrite")
				// every path after insert with overwritten==true passes n--
				miss := g.Reach(core.X1Succs(insN), func(n *core.Node) bool { return n == dec }, core.X1BoolEdge(isOv, false))
				bad := false
				for _, x := range g.Exits {
					if miss[x] {
						bad = true
					}
				}
				r.Check(!bad, rule5, f.String(), "n--always-when-overwritten", g.Line(dec), "every overwrite takes the count back")
			}
		}
	}
}

// slotVar returns the one local variable that indexes every HashMap.hashes[…]
// in body (nil if there are several or none).
func slotVar(info *types.Info, body ast.Node, hashesF *types.Var) types.Object {
	var out types.Object
	bad := false
	ast.Inspect(body, func(n ast.Node) bool {
		if ix, ok := n.(*ast.IndexExpr); ok && core.FieldOf(info, ix.X) == hashesF {
			o := core.ObjOf(info, ix.Index)
			if o == nil || (out != nil && o != out) {
				bad = true
			}
			out = o
		}
		return true
	})
	if bad {
		return nil
	}
	return out
}

// sentinelTests lists the comparisons `m.hashes[slot] == 0` in body.
func sentinelTests(info *types.Info, body ast.Node, hashesF *types.Var) []ast.Expr {
	var out []ast.Expr
	ast.Inspect(body, func(n ast.Node) bool {
		if be, ok := n.(*ast.BinaryExpr); ok && be.Op == token.EQL {
			if ix, ok := ast.Unparen(be.X).(*ast.IndexExpr); ok && core.FieldOf(info, ix.X) == hashesF && core.X1IsConstInt(info, be.Y, 0) {
				out = append(out, be)
			}
		}
		return true
	})
	return out
}

func exprList(es []ast.Expr) string {
	var s []string
	for _, e := range es {
		s = append(s, core.ExprStr(e))
	}
	return "[" + strings.Join(s, "; ") + "]"
}

// ================================================================ radix

func c36Radix(p *core.Prog, r *core.Report) {
	pk := p.Pkg(radixP)
	if !r.Check(pk != nil, "anchor", radixP, "unresolved", "", "package loaded") {
		return
	}
	// ---- (6) edges: single sorted writer, lookups through getEdge
	const rule = "radix-edges"
	core.RuleWriters(r, p, radixP, "node", "edges", []string{"node.addEdge", "node.mergeChild", "Tree.deletePrefix"}, rule)
	edgesF := core.LookupField(pk.Types, "node", "edges")
	getEdge := call(radixP + ".node.getEdge")
	for _, name := range []string{"Tree.Insert", "Tree.Get", "Tree.deletePrefix"} {
		f := r.Need(p, radixP, name)
		if f == nil || edgesF == nil {
			continue
		}
		info := f.Info()
		r.Check(len(core.AllCalls(info, f.Decl.Body, getEdge)) >= 1, rule, f.String(), "getEdge:absent", f.Pos(), "the child for the next key byte is selected with node.getEdge")
		// no indexing / ranging of edges for child selection outside getEdge
		direct := false
		ast.Inspect(f.Decl.Body, func(n ast.Node) bool {
			switch x := n.(type) {
			case *ast.IndexExpr:
				if core.FieldOf(info, x.X) == edgesF {
					direct = true
				}
			case *ast.RangeStmt:
				if core.FieldOf(info, x.X) == edgesF {
					direct = true
				}
			}
			return true
		})
		r.Check(!direct, rule, f.String(), "child-selected-without-getEdge", f.Pos(), "no direct indexing or ranging of node.edges in the descent")
	}
	if f := r.Need(p, radixP, "Tree.Insert"); f != nil {
		info := f.Info()
		// new children are linked with addEdge / replaceEdge only
		n := len(core.AllCalls(info, f.Decl.Body, call(radixP+".node.addEdge")))
		r.Check(n >= 1, rule, f.String(), "addEdge:absent", f.Pos(), fmt.Sprintf("%d addEdge calls (3 on the tree the rule was written against)", n))
	}

	// ---- (7) size accounting of Insert
	const rule7 = "radix-size"
	if f := r.Need(p, radixP, "Tree.Insert"); f != nil {
		g, info := f.Graph(), f.Info()
		sizeF := core.LookupField(pk.Types, "Tree", "size")
		if !r.Check(sizeF != nil, "anchor", radixP+".Tree.size", "unresolved", "", "field resolved") {
			return
		}
		isInc := func(n *core.Node) bool {
			s, ok := n.N.(*ast.IncDecStmt)
			return ok && s.Tok == token.INC && core.FieldOf(info, s.X) == sizeF
		}
		incs := g.Select(isInc)
		others := 0
		for _, nd := range g.Select(g.Assigning(sizeF)) {
			if !isInc(nd) {
				others++
			}
		}
		r.Check(len(incs) >= 1 && others == 0, rule7, f.String(), "size-updated-other-than-by-++", f.Pos(), fmt.Sprintf("%d size++ sites (3 on the tree the rule was written against), %d other stores", len(incs), others))
		noInc := g.ReachFromEntry(isInc, nil)
		afterInc := g.Reach(core.X1SuccsOf(incs), nil, nil)
		nT, nF := 0, 0
		for _, x := range g.Exits {
			rs, ok := x.N.(*ast.ReturnStmt)
			if !ok || len(rs.Results) != 2 {
				continue
			}
			if v, isC := core.ConstBool(info, rs.Results[1]); isC && v {
				nT++
				r.Check(!noInc[x], rule7, f.String(), "inserted-without-size++", g.Line(x), "a return reporting an insertion passed size++")
			} else if isC {
				nF++
				r.Check(!afterInc[x], rule7, f.String(), "existing-key-with-size++", g.Line(x), "the return reporting an existing key passed no size++")
			} else {
				r.Bad(rule7, f.String(), "inserted-flag-not-constant", g.Line(x), "Insert returns a constant inserted flag per path")
			}
		}
		r.Check(nT >= 4 && nF >= 1, rule7, f.String(), "returns:fewer-than-confirmed", f.Pos(), fmt.Sprintf("%d inserted / %d existing returns (4 / 1 confirmed)", nT, nF))
		double := false
		for _, i := range incs {
			if afterInc[i] {
				double = true
			}
		}
		r.Check(!double, rule7, f.String(), "size++-twice-on-a-path", f.Pos(), "no path passes two size increments")
	}
}

// ================================================================ SeriesIDSet

type setOp struct {
	method string
	callee string // roaring callee (full name) or own …NoLock method
	// operand shape:
	//  "s"    method on s.bitmap
	//  "s,o"  method on s.bitmap with other.bitmap as first argument
	//  "f:s,o" package function f(s.bitmap, other.bitmap)
	//  "nolock" own method on s
	//  "merge"  FastOr over a slice that collects s.bitmap and every other.bitmap
	shape string
	store bool // the result is stored into s.bitmap
	use   bool // the result must not be discarded
}

var setOps = []setOp{
	{"Add", "tsdb.SeriesIDSet.AddNoLock", "nolock", false, false},
	{"AddNoLock", roaring + ".Bitmap.Add", "s", false, false},
	{"AddMany", roaring + ".Bitmap.AddMany", "s", false, false},
	{"Contains", "tsdb.SeriesIDSet.ContainsNoLock", "nolock", false, true},
	{"ContainsNoLock", roaring + ".Bitmap.Contains", "s", false, true},
	{"Remove", "tsdb.SeriesIDSet.RemoveNoLock", "nolock", false, false},
	{"RemoveNoLock", roaring + ".Bitmap.Remove", "s", false, false},
	{"Cardinality", roaring + ".Bitmap.GetCardinality", "s", false, true},
	{"Merge", roaring + ".FastOr", "merge", true, true},
	{"MergeInPlace", roaring + ".Bitmap.Or", "s,o", false, false},
	{"Equals", roaring + ".Bitmap.Equals", "s,o", false, true},
	{"And", roaring + ".And", "f:s,o", false, true},
	{"AndNot", roaring + ".AndNot", "f:s,o", false, true},
	{"Diff", roaring + ".AndNot", "f:s,o", true, true},
	{"Intersects", roaring + ".Bitmap.Intersects", "s,o", false, true},
	{"Clone", "tsdb.SeriesIDSet.CloneNoLock", "nolock", false, true},
	{"CloneNoLock", roaring + ".Bitmap.Clone", "s", false, true},
	{"UnmarshalBinary", roaring + ".Bitmap.UnmarshalBinary", "s", false, true},
	{"UnmarshalBinaryUnsafe", roaring + ".Bitmap.FromBuffer", "s", false, true},
	{"WriteTo", roaring + ".Bitmap.WriteTo", "s", false, true},
	{"Clear", "tsdb.SeriesIDSet.ClearNoLock", "nolock", false, false},
	{"ClearNoLock", roaring + ".Bitmap.Clear", "s", false, false},
	{"ForEach", roaring + ".Bitmap.Iterator", "s", false, true},
	{"ForEachNoLock", roaring + ".Bitmap.Iterator", "s", false, true},
	{"Slice", roaring + ".Bitmap.ToArray", "s", false, true},
}

func setBitmapField(p *core.Prog, r *core.Report) *types.Var {
	pk := p.Pkg(tsdbP)
	if !r.Check(pk != nil, "anchor", tsdbP, "unresolved", "", "package loaded") {
		return nil
	}
	v := core.LookupField(pk.Types, "SeriesIDSet", "bitmap")
	r.Check(v != nil, "anchor", "tsdb.SeriesIDSet.bitmap", "unresolved", "", "field resolved")
	return v
}

// isSetPtr: t is *tsdb.SeriesIDSet (or a slice of it, for variadic parameters).
func isSetPtr(t types.Type) bool {
	if sl, ok := t.(*types.Slice); ok {
		t = sl.Elem()
	}
	pt, ok := t.(*types.Pointer)
	if !ok {
		return false
	}
	n := core.NamedOf(pt.Elem())
	return n != nil && n.Obj().Name() == "SeriesIDSet" && n.Obj().Pkg() != nil && core.Short(n.Obj().Pkg().Path()) == tsdbP
}

// setOperands returns the receiver and the objects that denote "another set":
// *SeriesIDSet parameters and range variables over a variadic one.
func setOperands(f *core.Func) (recv types.Object, others map[types.Object]bool) {
	info := f.Info()
	others = map[types.Object]bool{}
	recv = f.X1Recv()
	sig := f.Obj.Type().(*types.Signature)
	for i := 0; i < sig.Params().Len(); i++ {
		pv := sig.Params().At(i)
		if !isSetPtr(pv.Type()) {
			continue
		}
		if _, isSlice := pv.Type().(*types.Slice); !isSlice {
			others[pv] = true
			continue
		}
		ast.Inspect(f.Decl.Body, func(n ast.Node) bool {
			if rs, ok := n.(*ast.RangeStmt); ok && core.ObjOf(info, rs.X) == types.Object(pv) && rs.Value != nil {
				if o := core.ObjOf(info, rs.Value); o != nil {
					others[o] = true
				}
			}
			return true
		})
	}
	return
}

func c36SetDelegate(p *core.Prog, r *core.Report) {
	const rule = "set-delegate"
	bm := setBitmapField(p, r)
	if bm == nil {
		return
	}
	n := 0
	for _, op := range setOps {
		f := r.Need(p, tsdbP, "SeriesIDSet."+op.method)
		if f == nil {
			continue
		}
		n++
		g, info := f.Graph(), f.Info()
		recv, others := setOperands(f)
		isS := fieldOfRoot(info, recv, bm)
		isO := func(e ast.Expr) bool {
			for o := range others {
				if fieldOfRoot(info, o, bm)(e) {
					return true
				}
			}
			return false
		}
		m := call(op.callee)
		okCall := func(c *ast.CallExpr) bool {
			rc := core.Recv(c)
			switch op.shape {
			case "s":
				return rc != nil && isS(ast.Unparen(rc))
			case "s,o":
				return rc != nil && isS(ast.Unparen(rc)) && len(c.Args) == 1 && isO(ast.Unparen(c.Args[0]))
			case "f:s,o":
				return len(c.Args) == 2 && isS(ast.Unparen(c.Args[0])) && isO(ast.Unparen(c.Args[1]))
			case "nolock":
				return rc != nil && core.ObjOf(info, rc) == recv
			case "merge":
				return len(c.Args) == 1 && c.Ellipsis.IsValid()
			}
			return false
		}
		var good []*ast.CallExpr
		all := core.AllCalls(info, f.Decl.Body, m)
		for _, c := range all {
			if okCall(c) {
				good = append(good, c)
			}
		}
		if !r.Check(len(good) >= 1, rule, f.String(), "delegate:absent-or-wrong-operands", f.Pos(),
			fmt.Sprintf("%s calls %s with operands %q (%d calls of that callee)", op.method, shortCallee(op.callee), op.shape, len(all))) {
			continue
		}
		c := good[0]
		gate := g.X1CallingWith(m, okCall)
		// trivial exits: receiver == argument, nothing to add
		var exempt []core.EdgePred
		for o := range others {
			exempt = append(exempt, core.X1CmpEdge(core.X1IsObj(info, recv), core.X1IsObj(info, o), core.X1EQ))
		}
		sig := f.Obj.Type().(*types.Signature)
		for i := 0; i < sig.Params().Len(); i++ {
			if _, isSl := sig.Params().At(i).Type().(*types.Slice); isSl && !isSetPtr(sig.Params().At(i).Type()) {
				exempt = append(exempt, core.X1LenZeroEdge(info, core.X1IsObj(info, sig.Params().At(i)), true))
			}
		}
		core.RuleMustPassN(r, f, g, rule, shortCallee(op.callee), gate, core.X1OrEdges(exempt...))
		if op.use {
			discarded := false
			ast.Inspect(f.Decl.Body, func(x ast.Node) bool {
				if es, ok := x.(*ast.ExprStmt); ok && ast.Unparen(es.X) == ast.Expr(c) {
					discarded = true
				}
				return true
			})
			r.Check(!discarded, rule, f.String(), "result-discarded", p.Pos(c.Pos()), "the result of "+shortCallee(op.callee)+" is used")
		}
		if op.store {
			res := ast.Expr(c)
			if v := resultVar(info, f.Decl.Body, c); v != nil {
				res = nil
				// stored through a local: s.bitmap = <local>
				for _, nd := range g.Select(g.Assigning(bm)) {
					if as, ok := nd.N.(*ast.AssignStmt); ok && len(as.Lhs) == 1 && len(as.Rhs) == 1 && isS(ast.Unparen(as.Lhs[0])) && core.ObjOf(info, as.Rhs[0]) == v {
						res = as.Rhs[0]
					}
				}
				r.Check(res != nil, rule, f.String(), "result-not-stored", p.Pos(c.Pos()), "s.bitmap = result of "+shortCallee(op.callee))
			}
			stored := func(nd *core.Node) bool {
				as, ok := nd.N.(*ast.AssignStmt)
				return ok && len(as.Lhs) == 1 && len(as.Rhs) == 1 && isS(ast.Unparen(as.Lhs[0])) && res != nil && ast.Unparen(as.Rhs[0]) == ast.Unparen(res)
			}
			core.RuleMustPassN(r, f, g, rule, "store into s.bitmap", stored, core.X1OrEdges(exempt...))
		}
		if op.shape == "merge" {
			// the slice handed to FastOr collects s.bitmap and every other.bitmap
			bms := core.ObjOf(info, c.Args[0])
			hasS, hasO := false, false
			var oNode *core.Node
			for _, nd := range g.Nodes {
				as, ok := nd.N.(*ast.AssignStmt)
				if !ok || len(as.Lhs) != 1 || len(as.Rhs) != 1 || core.ObjOf(info, as.Lhs[0]) != bms {
					continue
				}
				ac, ok := ast.Unparen(as.Rhs[0]).(*ast.CallExpr)
				if !ok || !core.Builtin("append")(info, ac) || len(ac.Args) != 2 || core.ObjOf(info, ac.Args[0]) != bms {
					continue
				}
				if isS(ast.Unparen(ac.Args[1])) {
					hasS = true
					r.Check(!g.ReachFromEntry(func(x *core.Node) bool { return x == nd }, nil)[g.NodeOf(c)], rule, f.String(), "own-bitmap-in-union", g.Line(nd), "s.bitmap is part of the union on every path")
				}
				if isO(ast.Unparen(ac.Args[1])) {
					hasO, oNode = true, nd
				}
			}
			r.Check(bms != nil && hasS && hasO, rule, f.String(), "union-operands", f.Pos(), "FastOr is given s.bitmap and every other.bitmap")
			if oNode != nil {
				loops := g.RangeStmts()
				okLoop := false
				for _, rs := range loops {
					if core.InRegion(oNode, rs.Body) {
						// the receiver itself among the arguments is skipped: its bitmap is already in the union
						recvObj, _ := setOperands(f)
						self := core.X1CmpEdge(core.X1IsObj(info, recvObj), core.X1IsObj(info, core.ObjOf(info, rs.Value)), core.X1EQ)
						esc, ok := g.IterEscapes12(rs, func(x *core.Node) bool { return x == oNode }, self)
						okLoop = ok && len(esc) == 0
					}
				}
				r.Check(okLoop, rule, f.String(), "every-other-in-union", g.Line(oNode), "every iteration over others appends other.bitmap")
			}
		}
	}
	r.Check(n >= len(setOps), rule, "tsdb.SeriesIDSet", "operations:missing", "", fmt.Sprintf("%d of %d tabled operations present", n, len(setOps)))
}

func shortCallee(s string) string { return strings.TrimPrefix(s, "github.com/RoaringBitmap/") }

// roaring methods that change their receiver
var roaringMutators = call(roaring+".Bitmap.Add", roaring+".Bitmap.AddMany", roaring+".Bitmap.Remove", roaring+".Bitmap.Or",
	roaring+".Bitmap.Clear", roaring+".Bitmap.UnmarshalBinary", roaring+".Bitmap.FromBuffer", roaring+".Bitmap.And", roaring+".Bitmap.AndNot",
	roaring+".Bitmap.Xor", roaring+".Bitmap.AddRange", roaring+".Bitmap.RemoveRange", roaring+".Bitmap.CheckedAdd", roaring+".Bitmap.CheckedRemove",
	roaring+".Bitmap.ReadFrom", roaring+".Bitmap.Flip", roaring+".Bitmap.RunOptimize")

// own …NoLock methods and the lock mode their caller must hold
var setNoLock = map[string]int8{"AddNoLock": 2, "RemoveNoLock": 2, "ClearNoLock": 2, "ContainsNoLock": 1, "CloneNoLock": 1, "ForEachNoLock": 1}

func c36SetLocks(p *core.Prog, r *core.Report) {
	const rule = "set-locks"
	bm := setBitmapField(p, r)
	if bm == nil {
		return
	}
	// methods that by contract run without taking the lock
	unlocked := map[string]string{
		"Iterator": "documented: the returned iterator is not protected by the lock",
	}
	la := &core.LockAnalysis{Prog: p, Rules: &core.LockRules{Pkg: tsdbP}}
	nMeth, nAcc, nCalls := 0, 0, 0
	var names []string
	for _, f := range p.Funcs(tsdbP) {
		if strings.HasPrefix(f.Name, "SeriesIDSet.") && f.Decl.Body != nil {
			names = append(names, f.Name)
		}
	}
	sort.Strings(names)
	for _, name := range names {
		f := p.Func(tsdbP, name)
		meth := strings.TrimPrefix(name, "SeriesIDSet.")
		r.Saw(f)
		// balance: no lock survives the call (all methods)
		leaks := la.LockLeaks(f, func(string) bool { return true })
		var ls []string
		for k, at := range leaks {
			ls = append(ls, k+" @"+at)
		}
		sort.Strings(ls)
		r.Check(len(leaks) == 0, rule, f.String(), "lock-held-at-return", f.Pos(), "returns with no lock held "+strings.Join(ls, ", "))
		if _, isNoLock := setNoLock[meth]; isNoLock || strings.HasSuffix(meth, "NoLock") {
			continue
		}
		if _, ok := unlocked[meth]; ok {
			continue
		}
		nMeth++
		info := f.Info()
		recv, others := setOperands(f)
		operand := func(o types.Object) bool { return o == recv || others[o] }
		held := core.X4LocksHeld(p, f, nil)
		writes := map[*ast.SelectorExpr]bool{}
		ast.Inspect(f.Decl.Body, func(n ast.Node) bool {
			switch s := n.(type) {
			case *ast.AssignStmt:
				for _, l := range s.Lhs {
					if se, ok := ast.Unparen(l).(*ast.SelectorExpr); ok {
						writes[se] = true
					}
				}
			case *ast.CallExpr:
				if roaringMutators(info, s) {
					if se, ok := ast.Unparen(core.Recv(s)).(*ast.SelectorExpr); ok {
						writes[se] = true
					}
				}
			}
			return true
		})
		reported := map[string]bool{}
		ast.Inspect(f.Decl.Body, func(n ast.Node) bool {
			switch e := n.(type) {
			case *ast.SelectorExpr:
				if core.FieldOf(info, e) != bm {
					return true
				}
				root, path, ok := core.X1FieldPath(info, e)
				if !ok || len(path) != 1 || !operand(root) {
					return true // a set under construction in this function
				}
				nAcc++
				st, reach := held.At(e)
				need := int8(1)
				if writes[e] {
					need = 2
				}
				key := root.Name() + ".bitmap:" + map[int8]string{1: "read", 2: "write"}[need] + "-without-lock"
				if reach && st[core.ExprStr(e.X)] < need && !reported[key] {
					reported[key] = true
					r.Bad(rule, f.String(), key, p.Pos(e.Pos()), fmt.Sprintf("%s accessed while holding %v (needs %s's RWMutex in mode %d)", core.ExprStr(e), st, root.Name(), need))
				}
			case *ast.CallExpr:
				fn := core.Callee(info, e)
				if fn == nil {
					return true
				}
				need, isNL := setNoLock[fn.Name()]
				if !isNL || !strings.HasPrefix(core.FName(fn), "tsdb.SeriesIDSet.") {
					return true
				}
				rc := core.Recv(e)
				root := core.ObjOf(info, rc)
				if root == nil || !operand(root) {
					return true
				}
				nCalls++
				st, reach := held.At(e)
				key := root.Name() + "." + fn.Name() + ":called-without-lock"
				if reach && st[core.ExprStr(rc)] < need && !reported[key] {
					reported[key] = true
					r.Bad(rule, f.String(), key, p.Pos(e.Pos()), fmt.Sprintf("%s called while holding %v (needs mode %d)", core.ExprStr(e.Fun), st, need))
				}
			}
			return true
		})
		r.Ok(rule, f.String(), f.Pos(), "bitmap accesses and …NoLock calls are made under the owning set's lock")
	}
	r.Check(nMeth >= 21 && nAcc >= 25 && nCalls >= 5, rule, "tsdb.SeriesIDSet", "accesses:fewer-than-confirmed", "",
		fmt.Sprintf("%d locking methods, %d bitmap accesses, %d …NoLock calls examined", nMeth, nAcc, nCalls))
}

func c36SetAlias(p *core.Prog, r *core.Report) {
	const rule = "set-alias"
	n := 0
	for _, f := range p.Funcs(tsdbP) {
		if !strings.HasPrefix(f.Name, "SeriesIDSet.") || f.Decl.Body == nil {
			continue
		}
		info, g := f.Info(), f.Graph()
		recv, others := setOperands(f)
		if len(others) == 0 {
			continue
		}
		// lock operations of this method, by operand and mode
		type lk struct {
			node *core.Node
			obj  types.Object
			op   string
		}
		var ops []lk
		for _, nd := range g.Nodes {
			if nd.N == nil {
				continue
			}
			if _, isDefer := nd.N.(*ast.DeferStmt); isDefer {
				continue
			}
			for _, c := range core.CallsIn(info, nd.N, call("sync.RWMutex.Lock", "sync.RWMutex.RLock"), core.WalkOpts{}) {
				o := core.ObjOf(info, core.Recv(c))
				if o == recv || others[o] {
					ops = append(ops, lk{nd, o, core.Callee(info, c).Name()})
				}
			}
		}
		recvW := false
		otherAny := map[types.Object]bool{}
		for _, o := range ops {
			if o.obj == recv && o.op == "Lock" {
				recvW = true
			}
			if o.obj != recv {
				otherAny[o.obj] = true
			}
		}
		if !recvW || len(otherAny) == 0 {
			continue
		}
		n++
		for o := range otherAny {
			distinct := core.X1CmpEdge(core.X1IsObj(info, recv), core.X1IsObj(info, o), core.X1NE)
			noGuard := g.ReachFromEntry(nil, distinct)
			bad := ""
			for _, l := range ops {
				if l.obj == o && noGuard[l.node] { // an argument that IS the receiver must never be locked: the receiver is write-locked later
					// the two locks are only in conflict when one is held while the other is taken;
					// all methods here nest them, confirmed by set-locks reading both bitmaps under both locks
					bad = g.Line(l.node)
					break
				}
			}
			if bad == "" {
				r.Ok(rule, f.String(), f.Pos(), fmt.Sprintf("write-locks the receiver and locks %s only after %s != %s was established", o.Name(), recv.Name(), o.Name()))
				continue
			}
			r.Bad(rule, f.String(), "self-argument-not-excluded:"+o.Name(), f.Pos(),
				fmt.Sprintf("%s write-locks the receiver and locks %s; the lock at %s is reached without %s != %s being established, so s.%s(s) blocks forever on the non-re-entrant RWMutex",
					f.Name, o.Name(), bad, recv.Name(), o.Name(), strings.TrimPrefix(f.Name, "SeriesIDSet.")))
		}
	}
	r.Check(n >= 3, rule, "tsdb.SeriesIDSet", "methods:fewer-than-confirmed", "", fmt.Sprintf("%d methods write-lock the receiver while locking an argument (Merge, MergeInPlace, Diff confirmed)", n))
}
