package rules

import (
	"fmt"
	"go/ast"
	"go/token"
	"go/types"

	"verif/checker/core"
)

const (
	metaP  = "v1/services/meta"
	retP   = "v1/services/retention"
	coordP = "v1/coordinator"
)

func init() {
	register(&Prop{
		ID:       "C19",
		Patterns: []string{"./v1/services/retention", "./v1/services/meta", "./v1/coordinator"},
		Level:    "other",
		Explanation: "Necessary-condition rules for retention enforcement, decided on CFG paths with type-resolved callees, fields and variables: " +
			"(expired-predicate) RetentionPolicyInfo.ExpiredShardGroups appends &rpi.ShardGroups[i] only on paths that establish Deleted()==false for the same element, Duration != 0, and EndTime.Add(Duration) < t, and returns the appended slice; DeletedShardGroups appends only under Deleted()==true; " +
			"(deleted-set-provenance) every key stored into the deletion map of Service.DeletionCheck is sh.ID of a shard ranged from g.Shards with g ranged from r.DeletedShardGroups() or r.ExpiredShardGroups(time.Now()[.UTC()]); " +
			"(delete-group-args) MetaClient.DeleteShardGroup is called only with (d.Name, r.Name, g.ID) of the database/policy/group triple being iterated, g from ExpiredShardGroups, and the group's shards enter the deletion map only after a successful DeleteShardGroup; " +
			"(delete-shard-gate) TSDBStore.DeleteShard(id) is reachable only through a hit of id in the deletion map, after SetShardNewReadersBlocked(id,true) succeeded and ShardInUse(id) returned (false,nil), id being the ranged local shard id; " +
			"(drop-meta-ref) DropShardMetaRef(id,…) only for a map hit whose store delete succeeded or reported ErrShardNotFound, or for keys ranged from the deletion map; " +
			"(delete-group-target) Data.DeleteShardGroup stamps DeletedAt only on the element whose ID equals the id parameter; Data.DropShard selects only the shard whose ID equals the id parameter; Client.DeleteShardGroup commits and propagates both errors; " +
			"(map-shards-accounting) in PointsWriter.MapShards every point of the mapping loop is MapPoint'ed, AddDropped(p,…,RetentionPolicyBound) or the call fails; the retention cut-off is time.Now().Add(-rp.Duration) under Duration > 0; the first loop skips a point only if it is older than the cut-off or already covered and otherwise adds the created group to the list; " +
			"(dropped-report) AddDropped counts RetentionPolicyBound in RetentionDropped, Dropped() sums the counters, and WritePointsPrivileged returns a PartialWriteError carrying Dropped() on every success path after it was built; " +
			"(retention-drop-exact) the mapping loop maps a point only on paths that tested it against the cut-off.",
		NotCovered:  "the numeric values of the time comparisons and of now; shard-group layouts; that the tsdb store deletes exactly the named shard's files; concurrency between the retention check and writers; histories.",
		Assumptions: []string{"conditions are decomposed through &&, || and ! only; a fact established on an edge is assumed to still hold at the guarded statement (no reassignment of the tested variables in between — the tested objects are range variables or single-definition locals, which is checked where used)"},
		Run:         runC19,
	})
}

// ifaceFieldMethodRW5 matches x.F.M(...) where F is the given (interface-typed) struct field.
func ifaceFieldMethodRW5(field *types.Var, method string) core.Matcher {
	return func(info *types.Info, c *ast.CallExpr) bool {
		se, ok := ast.Unparen(c.Fun).(*ast.SelectorExpr)
		return ok && field != nil && se.Sel.Name == method && core.FieldOf(info, se.X) == field
	}
}

func posOfRW5(p *core.Prog, n ast.Node) string {
	if n == nil {
		return "-"
	}
	return p.Pos(n.Pos())
}

// strictEnclosingLitRW5: innermost function literal properly containing n.
func strictEnclosingLitRW5(root ast.Node, n ast.Node) *ast.FuncLit {
	var best *ast.FuncLit
	ast.Inspect(root, func(x ast.Node) bool {
		if fl, ok := x.(*ast.FuncLit); ok && ast.Node(fl) != n && fl.Pos() <= n.Pos() && n.End() <= fl.End() {
			best = fl
		}
		return true
	})
	return best
}

// rangeValueOf: obj is the value variable of exactly one range statement and has
// no other definition; returns that statement.
func rangeVarOfRW5(info *types.Info, root ast.Node, obj types.Object, idx int) *ast.RangeStmt {
	d, ok := core.SingleDef(info, root, obj)
	if !ok || d.Range == nil || d.Index != idx {
		return nil
	}
	return d.Range
}

func runC19(p *core.Prog, r *core.Report, tier string) {
	c19Expired(p, r)
	c19DeletionCheck(p, r)
	c19MetaDelete(p, r)
	c19MapShards(p, r)
	c19DroppedReport(p, r)
}

// ---------------------------------------------------------------- ExpiredShardGroups / DeletedShardGroups

// appendSitesRW5 returns the nodes `v = append(v, elem)` of g with the slice variable and the element.
type appendSiteRW5 struct {
	node *core.Node
	dst  types.Object
	elem ast.Expr
}

func appendSitesRW5(g *core.Graph) []appendSiteRW5 {
	var out []appendSiteRW5
	for _, n := range g.Nodes {
		as, ok := n.N.(*ast.AssignStmt)
		if !ok || len(as.Lhs) != 1 || len(as.Rhs) != 1 {
			continue
		}
		c, ok := ast.Unparen(as.Rhs[0]).(*ast.CallExpr)
		if !ok || !core.Builtin("append")(g.Info, c) || len(c.Args) != 2 || c.Ellipsis.IsValid() {
			continue
		}
		out = append(out, appendSiteRW5{node: n, dst: core.ObjOf(g.Info, as.Lhs[0]), elem: ast.Unparen(c.Args[1])})
	}
	return out
}

// elemOfFieldRW5 decodes [&]recv.F[i] and returns the index variable.
func elemOfFieldRW5(info *types.Info, e ast.Expr, field *types.Var) (idx types.Object, ok bool) {
	e = core.StripAddrDeref(e)
	ix, isIx := e.(*ast.IndexExpr)
	if !isIx || core.FieldOf(info, ix.X) != field {
		return nil, false
	}
	o := core.ObjOf(info, ix.Index)
	return o, o != nil
}

func c19Expired(p *core.Prog, r *core.Report) {
	const rule = "expired-predicate"
	pk := p.Pkg(metaP)
	if pk == nil {
		r.Bad("anchor", metaP, "unresolved", "-", "package not loaded")
		return
	}
	fGroups := core.LookupField(pk.Types, "RetentionPolicyInfo", "ShardGroups")
	fDur := core.LookupField(pk.Types, "RetentionPolicyInfo", "Duration")
	fEnd := core.LookupField(pk.Types, "ShardGroupInfo", "EndTime")
	if !r.Check(fGroups != nil && fDur != nil && fEnd != nil, "anchor", metaP+".RetentionPolicyInfo{ShardGroups,Duration},ShardGroupInfo.EndTime", "unresolved", "-", "fields resolved") {
		return
	}
	deleted := call(metaP + ".ShardGroupInfo.Deleted")

	if f := r.Need(p, metaP, "RetentionPolicyInfo.ExpiredShardGroups"); f != nil {
		info, g := f.Info(), f.Graph()
		tParam := types.Object(nil)
		if g.Sig != nil && g.Sig.Params().Len() == 1 {
			tParam = g.Sig.Params().At(0)
		}
		sites := appendSitesRW5(g)
		if r.Check(len(sites) >= 1 && tParam != nil, rule, f.String(), "append:absent", f.Pos(), "an append site and the time parameter exist") {
			for _, s := range sites {
				idx, ok := elemOfFieldRW5(info, s.elem, fGroups)
				_, isAddr := s.elem.(*ast.UnaryExpr)
				if !r.Check(ok && isAddr, rule, f.String(), "appended-element", g.Line(s.node), "the appended element is &rpi.ShardGroups[i]") {
					continue
				}
				sameElem := func(e ast.Expr) bool {
					i, ok := elemOfFieldRW5(info, e, fGroups)
					return ok && i == idx
				}
				// (a) not deleted
				notDeleted := core.CallFact(info, deleted, false, func(c *ast.CallExpr) bool { return sameElem(core.Recv(c)) })
				bad := g.NotReachableUnless(func(n *core.Node) bool { return n == s.node }, nil, core.EdgeEstablishing(notDeleted))
				r.Check(len(bad) == 0, rule, f.String(), "Deleted-skip", g.Line(s.node), "every path to the append established rpi.ShardGroups[i].Deleted()==false")
				// (b) Duration != 0
				durNZ := core.NonZeroFact(info, func(e ast.Expr) bool { return core.FieldOf(info, e) == fDur }, true, false)
				durPos := func(a ast.Expr, v bool) bool { // Duration > 0 also excludes 0
					x, op, c, ok := core.IntCmp(info, a)
					return ok && core.FieldOf(info, x) == fDur && c == 0 && (op == token.GTR && v || op == token.LEQ && !v)
				}
				bad = g.NotReachableUnless(func(n *core.Node) bool { return n == s.node }, nil, core.EdgeEstablishing(core.AnyFact(durNZ, durPos)))
				r.Check(len(bad) == 0, rule, f.String(), "Duration-nonzero", g.Line(s.node), "every path to the append established rpi.Duration != 0 (infinite retention never expires)")
				// (c) EndTime + Duration < t
				isEndPlusDur := func(e ast.Expr) bool {
					c := core.AsCall(info, e, call("time.Time.Add"))
					if c == nil || len(c.Args) != 1 {
						return false
					}
					rc := core.Recv(c)
					se, ok := rc.(*ast.SelectorExpr)
					return ok && core.FieldOf(info, se) == fEnd && sameElem(se.X) && core.FieldOf(info, c.Args[0]) == fDur
				}
				isT := func(e ast.Expr) bool { return core.ObjOf(info, e) == tParam }
				expired := func(a ast.Expr, v bool) bool { return core.TimeLess(info, a, v, true, isEndPlusDur, isT) }
				bad = g.NotReachableUnless(func(n *core.Node) bool { return n == s.node }, nil, core.EdgeEstablishing(expired))
				r.Check(len(bad) == 0, rule, f.String(), "EndTime+Duration<t", g.Line(s.node), "every path to the append established rpi.ShardGroups[i].EndTime.Add(rpi.Duration) is before t")
				// (d) the function returns the slice it appended to
				okRet := len(g.Exits) > 0
				for _, x := range g.Exits {
					rs, _ := x.N.(*ast.ReturnStmt)
					if rs == nil || len(rs.Results) != 1 || core.ObjOf(info, rs.Results[0]) != s.dst {
						okRet = false
					}
				}
				r.Check(okRet, rule, f.String(), "returns-appended", f.Pos(), "every return yields the slice that was appended to")
			}
		}
	}
	if f := r.Need(p, metaP, "RetentionPolicyInfo.DeletedShardGroups"); f != nil {
		info, g := f.Info(), f.Graph()
		sites := appendSitesRW5(g)
		if r.Check(len(sites) >= 1, rule, f.String(), "append:absent", f.Pos(), "an append site exists") {
			for _, s := range sites {
				idx, ok := elemOfFieldRW5(info, s.elem, fGroups)
				if !r.Check(ok, rule, f.String(), "appended-element", g.Line(s.node), "the appended element is &rpi.ShardGroups[i]") {
					continue
				}
				isDel := core.CallFact(info, deleted, true, func(c *ast.CallExpr) bool {
					i, ok := elemOfFieldRW5(info, core.Recv(c), fGroups)
					return ok && i == idx
				})
				bad := g.NotReachableUnless(func(n *core.Node) bool { return n == s.node }, nil, core.EdgeEstablishing(isDel))
				r.Check(len(bad) == 0, rule, f.String(), "Deleted-only", g.Line(s.node), "every path to the append established rpi.ShardGroups[i].Deleted()==true")
			}
		}
	}
	if f := r.Need(p, metaP, "ShardGroupInfo.Deleted"); f != nil {
		// Deleted() is "DeletedAt is not the zero time"
		fDel := core.LookupField(pk.Types, "ShardGroupInfo", "DeletedAt")
		ok := false
		g := f.Graph()
		if len(g.Exits) == 1 {
			if rs, isRet := g.Exits[0].N.(*ast.ReturnStmt); isRet && len(rs.Results) == 1 {
				if u, isNot := ast.Unparen(rs.Results[0]).(*ast.UnaryExpr); isNot && u.Op == token.NOT {
					if c := core.AsCall(f.Info(), u.X, call("time.Time.IsZero")); c != nil && core.FieldOf(f.Info(), core.Recv(c)) == fDel {
						ok = true
					}
				}
			}
		}
		r.Check(ok && fDel != nil, rule, f.String(), "Deleted-definition", f.Pos(), "Deleted() is !DeletedAt.IsZero()")
	}
}

// ---------------------------------------------------------------- Service.DeletionCheck

func c19DeletionCheck(p *core.Prog, r *core.Report) {
	f := r.Need(p, retP, "Service.DeletionCheck")
	if f == nil {
		return
	}
	info := f.Info()
	body := f.Decl.Body
	pk := p.Pkg(retP)
	mpk := p.Pkg(metaP)
	if mpk == nil {
		r.Bad("anchor", metaP, "unresolved", "-", "package not loaded")
		return
	}
	fStore := core.LookupField(pk.Types, "Service", "TSDBStore")
	fDrop := core.LookupField(pk.Types, "Service", "DropShardMetaRef")
	fShardID := core.LookupField(mpk.Types, "ShardInfo", "ID")
	fShards := core.LookupField(mpk.Types, "ShardGroupInfo", "Shards")
	fSGID := core.LookupField(mpk.Types, "ShardGroupInfo", "ID")
	fRPName := core.LookupField(mpk.Types, "RetentionPolicyInfo", "Name")
	fDBName := core.LookupField(mpk.Types, "DatabaseInfo", "Name")
	fRPs := core.LookupField(mpk.Types, "DatabaseInfo", "RetentionPolicies")
	if !r.Check(fStore != nil && fDrop != nil && fShardID != nil && fShards != nil && fSGID != nil && fRPName != nil && fDBName != nil && fRPs != nil,
		"anchor", "retention.Service{TSDBStore,DropShardMetaRef}, meta fields", "unresolved", f.Pos(), "fields resolved") {
		return
	}
	deleteShard := ifaceFieldMethodRW5(fStore, "DeleteShard")
	blockReaders := ifaceFieldMethodRW5(fStore, "SetShardNewReadersBlocked")
	inUseCall := ifaceFieldMethodRW5(fStore, "ShardInUse")
	shardIDs := ifaceFieldMethodRW5(fStore, "ShardIDs")
	dropRef := core.FieldCall(fDrop)
	delGroup := call(retP + ".OSSMetaClient.DeleteShardGroup")
	expiredCall := call(metaP + ".RetentionPolicyInfo.ExpiredShardGroups")
	deletedCall := call(metaP + ".RetentionPolicyInfo.DeletedShardGroups")

	// ---- anchor: the DeleteShard call and the deletion map
	dels := core.AllCalls(info, body, deleteShard)
	if !r.Check(len(dels) >= 1, "delete-shard-gate", f.String(), "DeleteShard:absent", f.Pos(), "TSDBStore.DeleteShard is called") {
		return
	}
	var mapObj types.Object
	type hit struct {
		ok, key types.Object
		stmt    *ast.AssignStmt
	}
	var hits []hit
	ast.Inspect(body, func(n ast.Node) bool {
		as, ok := n.(*ast.AssignStmt)
		if !ok || len(as.Lhs) != 2 || len(as.Rhs) != 1 {
			return true
		}
		ix, ok := ast.Unparen(as.Rhs[0]).(*ast.IndexExpr)
		if !ok {
			return true
		}
		if _, isMap := info.TypeOf(ix.X).Underlying().(*types.Map); !isMap {
			return true
		}
		m, k, o := core.ObjOf(info, ix.X), core.ObjOf(info, ix.Index), core.ObjOf(info, as.Lhs[1])
		if m != nil && k != nil && o != nil {
			hits = append(hits, hit{ok: o, key: k, stmt: as})
			if mapObj == nil {
				mapObj = m
			}
		}
		return true
	})
	// the lookup whose key is the argument of DeleteShard
	var theHit *hit
	var idObj types.Object
	for _, d := range dels {
		if len(d.Args) == 1 {
			idObj = core.ObjOf(info, d.Args[0])
		}
	}
	for i := range hits {
		ix := ast.Unparen(hits[i].stmt.Rhs[0]).(*ast.IndexExpr)
		if hits[i].key == idObj && idObj != nil {
			theHit = &hits[i]
			mapObj = core.ObjOf(info, ix.X)
		}
	}
	if !r.Check(theHit != nil && mapObj != nil, "delete-shard-gate", f.String(), "map-lookup:absent", f.Pos(), "the argument of DeleteShard is looked up (comma-ok) in a local map") {
		return
	}

	// ---- deleted-set-provenance
	{
		const rule = "deleted-set-provenance"
		n := 0
		ast.Inspect(body, func(x ast.Node) bool {
			as, ok := x.(*ast.AssignStmt)
			if !ok {
				return true
			}
			for _, l := range as.Lhs {
				ix, ok := ast.Unparen(l).(*ast.IndexExpr)
				if !ok || core.ObjOf(info, ix.X) != mapObj {
					continue
				}
				n++
				what, good := provenanceRW5(info, body, ix.Index, fShardID, fShards, core.Or(expiredCall, deletedCall))
				r.Check(good, rule, f.String(), "key-provenance", p.Pos(as.Pos()), "key stored into the deletion map: "+what)
			}
			return true
		})
		r.Check(n >= 2, rule, f.String(), "stores:count", f.Pos(), fmt.Sprintf("%d stores into the deletion map (>= 2 confirmed by reading)", n))
		// the expiry instant is now
		exp := core.AllCalls(info, body, expiredCall)
		r.Check(len(exp) >= 1, rule, f.String(), "ExpiredShardGroups:absent", f.Pos(), "ExpiredShardGroups is consulted")
		for _, c := range exp {
			good := false
			if len(c.Args) == 1 {
				a := core.ResolveLocal(info, body, c.Args[0])
				if u := core.AsCall(info, a, call("time.Time.UTC")); u != nil {
					a = core.ResolveLocal(info, body, core.Recv(u))
				}
				if nc := core.AsCall(info, a, call("time.Now")); nc != nil {
					good = true
				}
			}
			r.Check(good, rule, f.String(), "expiry-instant", p.Pos(c.Pos()), "ExpiredShardGroups is evaluated at time.Now() (optionally .UTC())")
		}
		dl := core.AllCalls(info, body, deletedCall)
		r.Check(len(dl) >= 1, rule, f.String(), "DeletedShardGroups:absent", f.Pos(), "DeletedShardGroups is consulted")
	}

	// ---- delete-group-args
	{
		const rule = "delete-group-args"
		dg := core.AllCalls(info, body, delGroup)
		r.Check(len(dg) >= 1, rule, f.String(), "DeleteShardGroup:absent", f.Pos(), "MetaClient.DeleteShardGroup is called")
		for _, c := range dg {
			good, why := false, "unexpected argument shape"
			if len(c.Args) == 3 {
				a0, ok0 := ast.Unparen(c.Args[0]).(*ast.SelectorExpr)
				a1, ok1 := ast.Unparen(c.Args[1]).(*ast.SelectorExpr)
				a2, ok2 := ast.Unparen(c.Args[2]).(*ast.SelectorExpr)
				if ok0 && ok1 && ok2 && core.FieldOf(info, a0) == fDBName && core.FieldOf(info, a1) == fRPName && core.FieldOf(info, a2) == fSGID {
					dObj, rObj, gObj := core.ObjOf(info, a0.X), core.ObjOf(info, a1.X), core.ObjOf(info, a2.X)
					// g ranges over rObj.ExpiredShardGroups(...)
					grs := rangeVarOfRW5(info, body, gObj, 1)
					rrs := rangeVarOfRW5(info, body, rObj, 1)
					switch {
					case gObj == nil || grs == nil:
						why = "group is not a range variable"
					case core.AsCall(info, grs.X, expiredCall) == nil:
						why = "group does not range over ExpiredShardGroups(...)"
					case core.ObjOf(info, core.Recv(core.AsCall(info, grs.X, expiredCall))) != rObj:
						why = "policy name is not taken from the policy whose ExpiredShardGroups is ranged"
					case rrs == nil || core.FieldOf(info, rrs.X) != fRPs:
						why = "policy is not a range variable over d.RetentionPolicies"
					case core.ObjOf(info, ast.Unparen(rrs.X).(*ast.SelectorExpr).X) != dObj:
						why = "database name is not taken from the database whose RetentionPolicies is ranged"
					default:
						good, why = true, "DeleteShardGroup(d.Name, r.Name, g.ID) with g from r.ExpiredShardGroups, r from d.RetentionPolicies"
					}
				}
			}
			r.Check(good, rule, f.String(), "arguments", p.Pos(c.Pos()), why)
			// stores into the map in the same unit come after a successful DeleteShardGroup
			lit := strictEnclosingLitRW5(body, c)
			g := f.GraphOf(lit)
			nodes := g.Select(g.Calling(delGroup))
			isStore := func(n *core.Node) bool { return nodeStoresMapRW5(info, n, mapObj) }
			stores := g.Select(isStore)
			if !r.Check(len(nodes) == 1 && len(stores) >= 1, rule, f.String(), "store-after-delete:absent", p.Pos(c.Pos()), "the expired group's shards are recorded in the same unit as DeleteShardGroup") {
				continue
			}
			fail, _, has := g.ErrEdges(nodes[0])
			if !has {
				// `if err := …; err != nil` puts the call in an init statement followed by the test
				fail, _, has = errEdgesAfterRW5(g, nodes[0])
			}
			if !r.Check(has, rule, f.String(), "DeleteShardGroup-unchecked", g.Line(nodes[0]), "the error of DeleteShardGroup is tested") {
				continue
			}
			reach := g.Reach([]*core.Node{fail.To}, nil, nil)
			pre := g.ReachFromEntry(func(n *core.Node) bool { return n == nodes[0] }, nil)
			okAll := true
			for _, s := range stores {
				if reach[s] || pre[s] {
					okAll = false
				}
			}
			r.Check(okAll, rule, f.String(), "store-after-successful-delete", g.Line(stores[0]), "shards are recorded for local removal only after DeleteShardGroup succeeded")
		}
	}

	// ---- delete-shard-gate
	{
		const rule = "delete-shard-gate"
		// id is the value variable of a range over TSDBStore.ShardIDs()
		rs := rangeVarOfRW5(info, body, idObj, 1)
		r.Check(rs != nil && core.AsCall(info, rs.X, shardIDs) != nil, rule, f.String(), "id-source", f.Pos(), "the deleted id ranges over TSDBStore.ShardIDs() and is not reassigned")
		// ok is defined once
		_, okSingle := core.SingleDef(info, body, theHit.ok)
		r.Check(okSingle, rule, f.String(), "hit-flag", p.Pos(theHit.stmt.Pos()), "the comma-ok flag of the map lookup has a single definition")
		hitEdge := core.EdgeEstablishing(core.BoolVarFact(info, theHit.ok, true))
		for _, d := range dels {
			lit := strictEnclosingLitRW5(body, d)
			// outer unit: the graph that contains the (in place invoked) literal
			var outer *core.Graph
			if lit == nil {
				outer = f.Graph()
			} else {
				outer = f.GraphOf(strictEnclosingLitRW5(body, lit))
			}
			bad := outer.NotReachableUnless(outer.Calling(deleteShard), nil, hitEdge)
			r.Check(len(outer.Select(outer.Calling(deleteShard))) >= 1 && len(bad) == 0, rule, f.String(), "map-hit", p.Pos(d.Pos()), "DeleteShard is reachable only through a hit of id in the deletion map")
			g := f.GraphOf(lit)
			dn := g.Calling(deleteShard)
			// SetShardNewReadersBlocked(id, true) precedes, and its failure never reaches DeleteShard
			blockTrue := func(n *core.Node) bool {
				if n.N == nil {
					return false
				}
				for _, c := range core.CallsIn(info, n.N, blockReaders, core.WalkOpts{}) {
					if len(c.Args) == 2 && core.ObjOf(info, c.Args[0]) == idObj {
						if v, ok := core.ConstBool(info, c.Args[1]); ok && v {
							return true
						}
					}
				}
				return false
			}
			bn := g.Select(blockTrue)
			if r.Check(len(bn) >= 1, rule, f.String(), "SetShardNewReadersBlocked(id,true):absent", p.Pos(d.Pos()), "new readers are blocked for the same id") {
				bad := g.NotReachableUnless(dn, blockTrue, nil)
				r.Check(len(bad) == 0, rule, f.String(), "block<DeleteShard", g.Line(bn[0]), "SetShardNewReadersBlocked(id,true) precedes DeleteShard on every path")
				okF := true
				for _, b := range bn {
					fail, _, has := errEdgesAfterRW5(g, b)
					if !has {
						okF = false
						continue
					}
					reach := g.Reach([]*core.Node{fail.To}, nil, nil)
					for _, x := range g.Select(dn) {
						if reach[x] {
							okF = false
						}
					}
				}
				r.Check(okF, rule, f.String(), "DeleteShard-after-failed-block", g.Line(bn[0]), "a failed SetShardNewReadersBlocked never leads to DeleteShard")
			}
			// ShardInUse(id) == (false, nil)
			var inUseObj, inUseErr types.Object
			var inUseNode *core.Node
			for _, n := range g.Nodes {
				as, ok := n.N.(*ast.AssignStmt)
				if !ok || len(as.Lhs) != 2 || len(as.Rhs) != 1 {
					continue
				}
				if c := core.AsCall(info, as.Rhs[0], inUseCall); c != nil && len(c.Args) == 1 && core.ObjOf(info, c.Args[0]) == idObj {
					inUseObj, inUseErr, inUseNode = core.ObjOf(info, as.Lhs[0]), core.ObjOf(info, as.Lhs[1]), n
				}
			}
			if r.Check(inUseNode != nil && inUseObj != nil && inUseErr != nil, rule, f.String(), "ShardInUse(id):absent", p.Pos(d.Pos()), "ShardInUse is asked for the same id and both results are kept") {
				_, s1 := core.SingleDef(info, body, inUseObj)
				if _, s2 := core.SingleDef(info, body, inUseErr); !s2 {
					s1 = false
				}
				notInUse := core.EdgeEstablishing(core.BoolVarFact(info, inUseObj, false))
				bad := g.NotReachableUnless(dn, nil, notInUse)
				r.Check(s1 && len(bad) == 0, rule, f.String(), "not-in-use", g.Line(inUseNode), "DeleteShard is reachable only through a branch on which ShardInUse reported false")
				errNil := core.EdgeEstablishing(func(a ast.Expr, v bool) bool {
					x, nonNilOnTrue, ok := core.NilTest(info, a)
					return ok && core.ObjOf(info, x) == inUseErr && v != nonNilOnTrue
				})
				bad = g.NotReachableUnless(dn, nil, errNil)
				r.Check(len(bad) == 0, rule, f.String(), "in-use-error", g.Line(inUseNode), "DeleteShard is reachable only through a branch on which ShardInUse returned no error")
				pre := g.NotReachableUnless(dn, func(n *core.Node) bool { return n == inUseNode }, nil)
				r.Check(len(pre) == 0, rule, f.String(), "ShardInUse<DeleteShard", g.Line(inUseNode), "ShardInUse precedes DeleteShard")
			}
			// the error of DeleteShard is propagated
			core.RuleErrorsUsed(r, f, rule, "DeleteShard/ShardInUse/SetShardNewReadersBlocked(…,true)", func(i *types.Info, c *ast.CallExpr) bool {
				if deleteShard(i, c) || inUseCall(i, c) {
					return true
				}
				if blockReaders(i, c) && len(c.Args) == 2 {
					v, ok := core.ConstBool(i, c.Args[1])
					return ok && v
				}
				return false
			}, false, 3)
		}
	}

	// ---- drop-meta-ref
	{
		const rule = "drop-meta-ref"
		drops := core.AllCalls(info, body, dropRef)
		r.Check(len(drops) >= 2, rule, f.String(), "DropShardMetaRef:count", f.Pos(), fmt.Sprintf("%d calls of DropShardMetaRef (>= 2 confirmed by reading)", len(drops)))
		hitEdge := core.EdgeEstablishing(core.BoolVarFact(info, theHit.ok, true))
		for _, c := range drops {
			if len(c.Args) < 1 {
				r.Bad(rule, f.String(), "argument", p.Pos(c.Pos()), "no shard id argument")
				continue
			}
			a := core.ObjOf(info, c.Args[0])
			switch {
			case a != nil && a == idObj:
				// under the map hit, and not after a failed (other than not-found) delete
				lit := strictEnclosingLitRW5(body, c)
				var outer *core.Graph
				if lit == nil {
					outer = f.Graph()
				} else {
					outer = f.GraphOf(strictEnclosingLitRW5(body, lit))
				}
				target := func(n *core.Node) bool {
					return n.N != nil && n.N.Pos() <= c.Pos() && c.End() <= n.N.End()
				}
				bad := outer.NotReachableUnless(target, nil, hitEdge)
				r.Check(len(outer.Select(target)) == 1 && len(bad) == 0, rule, f.String(), "local-id:map-hit", p.Pos(c.Pos()), "DropShardMetaRef(id) for a local shard only through a hit of id in the deletion map")
				// the result variable of the unit that deletes the shard
				delNodes := outer.Select(outer.Calling(deleteShard))
				var errObj types.Object
				if len(delNodes) == 1 {
					if as, ok := delNodes[0].N.(*ast.AssignStmt); ok && len(as.Lhs) == 1 {
						errObj = core.ObjOf(info, as.Lhs[0])
					}
				}
				if !r.Check(errObj != nil && core.IsErrorType(errObj.Type()), rule, f.String(), "delete-result:absent", p.Pos(c.Pos()), "the outcome of the store delete is kept in an error variable") {
					continue
				}
				okOrNotFound := core.EdgeEstablishing(func(at ast.Expr, v bool) bool {
					if x, nonNilOnTrue, ok := core.NilTest(info, at); ok && core.ObjOf(info, x) == errObj {
						return v != nonNilOnTrue // err == nil
					}
					if ic := core.AsCall(info, at, call("errors.Is")); ic != nil && len(ic.Args) == 2 && v {
						if core.ObjOf(info, ic.Args[0]) != errObj {
							return false
						}
						o := core.BaseObj(info, ic.Args[1])
						return o != nil && o.Name() == "ErrShardNotFound" && o.Pkg() != nil && core.Short(o.Pkg().Path()) == "tsdb"
					}
					return false
				})
				reach := outer.Reach(core.After(delNodes[0], nil), nil, okOrNotFound)
				okPath := true
				for _, n := range outer.Select(target) {
					if reach[n] {
						okPath = false
					}
				}
				r.Check(okPath, rule, f.String(), "local-id:after-delete-outcome", p.Pos(c.Pos()), "DropShardMetaRef(id) follows the store delete only when it succeeded or reported tsdb.ErrShardNotFound")
			case a != nil:
				rs := rangeVarOfRW5(info, body, a, 0)
				r.Check(rs != nil && core.ObjOf(info, rs.X) == mapObj, rule, f.String(), "phantom-id:source", p.Pos(c.Pos()), "DropShardMetaRef(id) outside the local loop takes id from ranging the deletion map")
			default:
				r.Bad(rule, f.String(), "argument", p.Pos(c.Pos()), "shard id argument is not a plain variable")
			}
		}
	}
}

// nodeStoresMapRW5: node n contains `m[k] = v` for the map variable m (incl. in-place literals).
func nodeStoresMapRW5(info *types.Info, n *core.Node, m types.Object) bool {
	if n.N == nil {
		return false
	}
	found := false
	core.Walk(n.N, core.WalkOpts{}, func(x ast.Node) bool {
		if as, ok := x.(*ast.AssignStmt); ok {
			for _, l := range as.Lhs {
				if ix, ok := ast.Unparen(l).(*ast.IndexExpr); ok && core.ObjOf(info, ix.X) == m {
					found = true
				}
			}
		}
		return true
	})
	return found
}

// errEdgesAfterRW5 finds the `err != nil` test that follows node n on the
// straight-line path, for the error variable assigned in n (also when n is the
// init statement of the if).
func errEdgesAfterRW5(g *core.Graph, n *core.Node) (fail, succ *core.Edge, ok bool) {
	if f, s, ok := g.ErrEdges(n); ok {
		return f, s, true
	}
	return nil, nil, false
}

// provenanceRW5 decides whether key is `sh.ID` with sh ranged from `g.Shards` and g
// ranged from a call of class src.
func provenanceRW5(info *types.Info, root ast.Node, key ast.Expr, fShardID, fShards *types.Var, src core.Matcher) (string, bool) {
	se, ok := ast.Unparen(key).(*ast.SelectorExpr)
	if !ok || core.FieldOf(info, se) != fShardID {
		return "key is not the ID field of a ShardInfo", false
	}
	sh := core.ObjOf(info, se.X)
	rs := rangeVarOfRW5(info, root, sh, 1)
	if rs == nil {
		return "the shard is not a range value variable with a single definition", false
	}
	gs, ok := ast.Unparen(rs.X).(*ast.SelectorExpr)
	if !ok || core.FieldOf(info, gs) != fShards {
		return "the shard does not range over the Shards of a group", false
	}
	gobj := core.ObjOf(info, gs.X)
	grs := rangeVarOfRW5(info, root, gobj, 1)
	if grs == nil {
		return "the group is not a range value variable with a single definition", false
	}
	c := core.AsCall(info, grs.X, src)
	if c == nil {
		return "the group does not range over DeletedShardGroups()/ExpiredShardGroups()", false
	}
	return "sh.ID, sh in g.Shards, g in " + core.FName(core.Callee(info, c)), true
}

// ---------------------------------------------------------------- meta: DeleteShardGroup / DropShard

func c19MetaDelete(p *core.Prog, r *core.Report) {
	const rule = "delete-group-target"
	pk := p.Pkg(metaP)
	if pk == nil {
		return
	}
	fGroups := core.LookupField(pk.Types, "RetentionPolicyInfo", "ShardGroups")
	fID := core.LookupField(pk.Types, "ShardGroupInfo", "ID")
	fDelAt := core.LookupField(pk.Types, "ShardGroupInfo", "DeletedAt")
	fShardID := core.LookupField(pk.Types, "ShardInfo", "ID")
	if f := r.Need(p, metaP, "Data.DeleteShardGroup"); f != nil && fGroups != nil && fID != nil && fDelAt != nil {
		info, g := f.Info(), f.Graph()
		var idParam types.Object
		if g.Sig.Params().Len() == 3 {
			idParam = g.Sig.Params().At(2)
		}
		stores := g.Select(g.Assigning(fDelAt))
		if r.Check(len(stores) >= 1 && idParam != nil, rule, f.String(), "DeletedAt-store:absent", f.Pos(), "the group is stamped as deleted") {
			for _, s := range stores {
				as, _ := s.N.(*ast.AssignStmt)
				var idx types.Object
				okShape := false
				if as != nil && len(as.Lhs) == 1 && len(as.Rhs) == 1 {
					if se, ok := ast.Unparen(as.Lhs[0]).(*ast.SelectorExpr); ok {
						idx, okShape = elemOfFieldRW5(info, se.X, fGroups)
					}
				}
				if !r.Check(okShape, rule, f.String(), "DeletedAt-target", g.Line(s), "the stamped element is rpi.ShardGroups[i]") {
					continue
				}
				match := func(a ast.Expr, v bool) bool {
					be, ok := ast.Unparen(a).(*ast.BinaryExpr)
					if !ok || !(be.Op == token.EQL && v || be.Op == token.NEQ && !v) {
						return false
					}
					one := func(x, y ast.Expr) bool {
						se, ok := ast.Unparen(x).(*ast.SelectorExpr)
						if !ok || core.FieldOf(info, se) != fID {
							return false
						}
						i, ok := elemOfFieldRW5(info, se.X, fGroups)
						return ok && i == idx && core.ObjOf(info, y) == idParam
					}
					return one(be.X, be.Y) || one(be.Y, be.X)
				}
				bad := g.NotReachableUnless(func(n *core.Node) bool { return n == s }, nil, core.EdgeEstablishing(match))
				r.Check(len(bad) == 0, rule, f.String(), "ID==id", g.Line(s), "DeletedAt is written only for the element whose ID equals the id parameter")
				// value is the current time
				rhs := core.ResolveLocal(info, f.Decl.Body, as.Rhs[0])
				if u := core.AsCall(info, rhs, call("time.Time.UTC")); u != nil {
					rhs = core.ResolveLocal(info, f.Decl.Body, core.Recv(u))
				}
				r.Check(core.AsCall(info, rhs, call("time.Now")) != nil, rule, f.String(), "DeletedAt-value", g.Line(s), "DeletedAt is set to time.Now() (non-zero, so Deleted() becomes true)")
			}
		}
	}
	if f := r.Need(p, metaP, "Data.DropShard"); f != nil && fShardID != nil {
		info, g := f.Info(), f.Graph()
		var idParam types.Object
		if g.Sig.Params().Len() == 1 {
			idParam = g.Sig.Params().At(0)
		}
		// the selection `found = sidx` happens only under s.ID == id with (sidx, s) of one range
		n := 0
		for _, nd := range g.Nodes {
			as, ok := nd.N.(*ast.AssignStmt)
			if !ok || as.Tok != token.ASSIGN || len(as.Lhs) != 1 || len(as.Rhs) != 1 {
				continue
			}
			k := core.ObjOf(info, as.Rhs[0])
			rs := rangeVarOfRW5(info, f.Decl.Body, k, 0)
			if rs == nil || core.ObjOf(info, as.Lhs[0]) == nil {
				continue
			}
			val := core.ObjOf(info, rs.Value)
			n++
			match := func(a ast.Expr, v bool) bool {
				be, ok := ast.Unparen(a).(*ast.BinaryExpr)
				if !ok || !(be.Op == token.EQL && v || be.Op == token.NEQ && !v) {
					return false
				}
				one := func(x, y ast.Expr) bool {
					se, ok := ast.Unparen(x).(*ast.SelectorExpr)
					return ok && core.FieldOf(info, se) == fShardID && core.ObjOf(info, se.X) == val && val != nil && core.ObjOf(info, y) == idParam
				}
				return one(be.X, be.Y) || one(be.Y, be.X)
			}
			bad := g.NotReachableUnless(func(x *core.Node) bool { return x == nd }, nil, core.EdgeEstablishing(match))
			r.Check(len(bad) == 0 && idParam != nil, rule, f.String(), "ID==id", g.Line(nd), "a shard position is selected only for the shard whose ID equals the id parameter")
		}
		r.Check(n >= 1, rule, f.String(), "selection:absent", f.Pos(), "the shard to drop is selected by a range index")
	}
	if f := r.Need(p, metaP, "Client.DeleteShardGroup"); f != nil {
		core.RuleOrder(r, f, rule, []string{"Data.DeleteShardGroup", "Client.commit"}, []core.Matcher{call(metaP + ".Data.DeleteShardGroup"), call(metaP + ".Client.commit")})
		core.RuleMustPass(r, f, rule, "Client.commit", call(metaP+".Client.commit"), false)
		core.RuleErrorsUsed(r, f, rule, "DeleteShardGroup/commit", call(metaP+".Data.DeleteShardGroup", metaP+".Client.commit"), false, 2)
	}
}

// ---------------------------------------------------------------- PointsWriter.MapShards

func c19MapShards(p *core.Prog, r *core.Report) {
	const rule = "map-shards-accounting"
	f := r.Need(p, coordP, "PointsWriter.MapShards")
	if f == nil {
		return
	}
	info, g, body := f.Info(), f.Graph(), f.Decl.Body
	pk := p.Pkg(coordP)
	mpk := p.Pkg(metaP)
	if mpk == nil {
		r.Bad("anchor", metaP, "unresolved", "-", "package not loaded")
		return
	}
	fPoints := core.LookupField(pk.Types, "WritePointsRequest", "Points")
	fDur := core.LookupField(mpk.Types, "RetentionPolicyInfo", "Duration")
	fMeta := core.LookupField(pk.Types, "PointsWriter", "MetaClient")
	if !r.Check(fPoints != nil && fDur != nil && fMeta != nil, "anchor", coordP+".WritePointsRequest.Points", "unresolved", f.Pos(), "fields resolved") {
		return
	}
	mapPoint := call(coordP + ".ShardMapping.MapPoint")
	addDropped := call(coordP + ".ShardMapping.AddDropped")
	createSG := ifaceFieldMethodRW5(fMeta, "CreateShardGroup")
	listAdd := call(coordP + ".sgList.Add")
	covers := call(coordP + ".sgList.Covers")
	pointTime := call("models.Point.Time")
	rpBound, _ := pk.Types.Scope().Lookup("RetentionPolicyBound").(*types.Const)

	loops := core.RangeOver(body, func(e ast.Expr) bool { return core.FieldOf(info, e) == fPoints })
	var mapLoop, createLoop *ast.RangeStmt
	for _, l := range loops {
		if len(core.AllCalls(info, l.Body, mapPoint)) > 0 {
			mapLoop = l
		}
		if len(core.AllCalls(info, l.Body, createSG)) > 0 {
			createLoop = l
		}
	}
	if !r.Check(mapLoop != nil && createLoop != nil && mapLoop != createLoop, rule, f.String(), "loops:absent", f.Pos(), "the create loop and the mapping loop over wp.Points exist") {
		return
	}
	isTimeOf := func(pv types.Object) func(ast.Expr) bool {
		return func(e ast.Expr) bool {
			c := core.AsCall(info, e, pointTime)
			return c != nil && pv != nil && core.ObjOf(info, core.Recv(c)) == pv
		}
	}

	// ---- the cut-off variable: tested in the create loop as p.Time() < min
	cp := core.ObjOf(info, createLoop.Value)
	var minObj types.Object
	for _, n := range g.Nodes {
		if n.N == nil || !core.InRegion(n, createLoop.Body) {
			continue
		}
		if e, ok := n.N.(ast.Expr); ok {
			for _, a := range core.Atoms(e) {
				x, op, y, ok := core.TimeCmp(info, a)
				if ok && op == token.LSS && isTimeOf(cp)(x) {
					minObj = core.ObjOf(info, y)
				}
			}
		}
	}
	if r.Check(minObj != nil, rule, f.String(), "cut-off:absent", posOfRW5(p, createLoop), "the create loop compares p.Time() with a cut-off variable") {
		// definitions of the cut-off: MinNanoTime, and now-Duration under Duration > 0
		defs := core.DefsOf(info, body, minObj)
		nNow := 0
		okDefs := len(defs) == 2
		for _, d := range defs {
			if d.Rhs == nil {
				okDefs = false
				continue
			}
			if c := core.AsCall(info, d.Rhs, call("time.Time.Add")); c != nil && len(c.Args) == 1 {
				recv := core.ResolveLocal(info, body, core.Recv(c))
				u, isNeg := ast.Unparen(c.Args[0]).(*ast.UnaryExpr)
				if core.AsCall(info, recv, call("time.Now")) != nil && isNeg && u.Op == token.SUB && core.FieldOf(info, u.X) == fDur {
					nNow++
					// under Duration > 0
					nd := g.NodeOf(d.Stmt)
					durPos := func(a ast.Expr, v bool) bool {
						x, op, c, ok := core.IntCmp(info, a)
						return ok && core.FieldOf(info, x) == fDur && c == 0 && (op == token.GTR && v || op == token.LEQ && !v)
					}
					bad := g.NotReachableUnless(func(n *core.Node) bool { return n == nd }, nil, core.EdgeEstablishing(durPos))
					r.Check(nd != nil && len(bad) == 0, rule, f.String(), "cut-off:Duration>0", posOfRW5(p, d.Stmt), "the cut-off becomes now-Duration only when Duration > 0")
				}
				continue
			}
			if c := core.AsCall(info, d.Rhs, call("time.Unix")); c != nil && len(c.Args) == 2 {
				o := core.BaseObj(info, c.Args[1])
				if o == nil || o.Name() != "MinNanoTime" {
					okDefs = false
				}
				continue
			}
			okDefs = false
		}
		r.Check(okDefs && nNow == 1, rule, f.String(), "cut-off:definition", f.Pos(), "the cut-off is time.Unix(0, models.MinNanoTime) or time.Now().Add(-rp.Duration)")
		// nothing from the first loop on assigns the cut-off
		if h, _, _ := g.LoopNodes(createLoop); h != nil {
			rr := g.Reach([]*core.Node{h}, nil, nil)
			stable := true
			for _, n := range g.Select(g.AssigningObj(minObj)) {
				if rr[n] {
					stable = false
				}
			}
			r.Check(stable, rule, f.String(), "cut-off:stable", posOfRW5(p, createLoop), "the cut-off is not reassigned once the loops have started")
		}
	}

	// ---- create loop: skip only if stale or covered; otherwise CreateShardGroup(p.Time()) then list.Add
	{
		head, bodyN, _ := g.LoopNodes(createLoop)
		if r.Check(head != nil && bodyN != nil, rule, f.String(), "create-loop:cfg", posOfRW5(p, createLoop), "loop resolved in the CFG") {
			stale := func(a ast.Expr, v bool) bool {
				return core.TimeLess(info, a, v, true, isTimeOf(cp), func(e ast.Expr) bool { return core.ObjOf(info, e) == minObj })
			}
			covered := core.CallFact(info, covers, true, func(c *ast.CallExpr) bool { return len(c.Args) == 1 && isTimeOf(cp)(ast.Unparen(c.Args[0])) })
			added := g.Calling(listAdd)
			reach := g.Reach([]*core.Node{bodyN}, added, core.EdgeEstablishing(core.AnyFact(stale, covered)))
			r.Check(!reach[head] && len(g.Select(added)) >= 1, rule, f.String(), "create-loop:skip", posOfRW5(p, createLoop), "an iteration ends without list.Add only when the point is older than the cut-off or already covered (or the call fails)")
			okExit := true
			for _, x := range g.RealSuccessExits() {
				if reach[x] {
					okExit = false
				}
			}
			r.Check(okExit, rule, f.String(), "create-loop:exit", posOfRW5(p, createLoop), "no success return from inside an iteration that neither skipped nor added")
			// CreateShardGroup is called with the time of the same point, its result is what is added
			for _, c := range core.AllCalls(info, createLoop.Body, createSG) {
				r.Check(len(c.Args) == 3 && isTimeOf(cp)(ast.Unparen(c.Args[2])), rule, f.String(), "CreateShardGroup-timestamp", p.Pos(c.Pos()), "CreateShardGroup is asked for the time of the point being examined")
			}
			for _, c := range core.AllCalls(info, createLoop.Body, listAdd) {
				okArg := false
				if len(c.Args) == 1 {
					o := core.BaseObj(info, core.StripAddrDeref(c.Args[0]))
					if d, ok := core.SingleDef(info, body, o); ok && d.Rhs != nil && core.AsCall(info, d.Rhs, createSG) != nil && d.Index == 0 {
						okArg = true
					}
				}
				r.Check(okArg, rule, f.String(), "list.Add-argument", p.Pos(c.Pos()), "the group added to the list is the one CreateShardGroup returned")
			}
			core.RuleErrorsUsed(r, f, rule, "CreateShardGroup", createSG, false, 1)
		}
	}

	// ---- mapping loop: every point is mapped, counted as dropped, or the call fails
	mp := core.ObjOf(info, mapLoop.Value)
	head, bodyN, _ := g.LoopNodes(mapLoop)
	if !r.Check(head != nil && bodyN != nil && mp != nil, rule, f.String(), "map-loop:cfg", posOfRW5(p, mapLoop), "loop resolved in the CFG") {
		return
	}
	sink := func(n *core.Node) bool {
		if n.N == nil {
			return false
		}
		for _, c := range core.CallsIn(info, n.N, mapPoint, core.WalkOpts{}) {
			if len(c.Args) == 2 && core.ObjOf(info, c.Args[1]) == mp {
				return true
			}
		}
		for _, c := range core.CallsIn(info, n.N, addDropped, core.WalkOpts{}) {
			if len(c.Args) == 3 && core.ObjOf(info, c.Args[0]) == mp {
				return true
			}
		}
		return false
	}
	r.Check(len(g.Select(sink)) >= 2, rule, f.String(), "sinks:count", posOfRW5(p, mapLoop), "MapPoint(…,p) and AddDropped(p,…) sites found (>= 2 confirmed by reading)")
	reach := g.Reach([]*core.Node{bodyN}, sink, nil)
	r.Check(!reach[head], rule, f.String(), "point-unaccounted", posOfRW5(p, mapLoop), "no iteration of the mapping loop ends without MapPoint(…,p) or AddDropped(p,…)")
	okExit := true
	for _, x := range g.RealSuccessExits() {
		if reach[x] {
			okExit = false
		}
	}
	r.Check(okExit, rule, f.String(), "early-success", posOfRW5(p, mapLoop), "no success return from inside an iteration that accounted for nothing")
	// exactly one sink per iteration: after a sink no second sink before the loop head
	second := false
	for _, s := range g.Select(sink) {
		rr := g.Reach(core.After(s, nil), func(n *core.Node) bool { return n == head }, nil)
		for _, t := range g.Select(sink) {
			if rr[t] {
				second = true
			}
		}
	}
	r.Check(!second, rule, f.String(), "double-accounting", posOfRW5(p, mapLoop), "a point is never both mapped and dropped (or counted twice) in one iteration")
	// AddDropped reason and bound
	for _, c := range core.AllCalls(info, mapLoop.Body, addDropped) {
		okReason := false
		if len(c.Args) == 3 && rpBound != nil {
			if o, ok := core.BaseObj(info, c.Args[2]).(*types.Const); ok && o == rpBound {
				okReason = true
			}
		}
		r.Check(okReason, rule, f.String(), "AddDropped-reason", p.Pos(c.Pos()), "a point without shard group is counted under RetentionPolicyBound")
		if minObj != nil && len(c.Args) == 3 {
			r.Check(core.ObjOf(info, c.Args[1]) == minObj, rule, f.String(), "AddDropped-bound", p.Pos(c.Pos()), "the violated bound reported is the cut-off")
		}
	}
	// MapPoint gets the shard of the group found for the same point
	for _, c := range core.AllCalls(info, mapLoop.Body, mapPoint) {
		good, why := false, "unexpected shape"
		if len(c.Args) == 2 {
			sh := core.BaseObj(info, core.StripAddrDeref(c.Args[0]))
			if d, ok := core.SingleDef(info, body, sh); ok && d.Rhs != nil {
				if sf := core.AsCall(info, d.Rhs, call(metaP+".ShardGroupInfo.ShardFor")); sf != nil && len(sf.Args) == 1 && core.ObjOf(info, sf.Args[0]) == mp {
					sg := core.ObjOf(info, core.Recv(sf))
					if d2, ok := core.SingleDef(info, body, sg); ok && d2.Rhs != nil {
						if at := core.AsCall(info, d2.Rhs, call(coordP+".sgList.ShardGroupAt")); at != nil && len(at.Args) == 1 && isTimeOf(mp)(ast.Unparen(at.Args[0])) {
							good, why = true, "MapPoint(&sg.ShardFor(p), p) with sg = list.ShardGroupAt(p.Time())"
						} else {
							why = "the group is not list.ShardGroupAt(p.Time()) of the same point"
						}
					}
				} else {
					why = "the shard is not sg.ShardFor(p) of the same point"
				}
			}
		}
		r.Check(good, rule, f.String(), "MapPoint-arguments", p.Pos(c.Pos()), why)
	}

	// ---- retention-drop-exact: a point is mapped only after having been compared with the cut-off
	if minObj != nil {
		notStale := func(a ast.Expr, v bool) bool {
			// !(p.Time() < min)  ==  min <= p.Time()
			return core.TimeLess(info, a, v, false, func(e ast.Expr) bool { return core.ObjOf(info, e) == minObj }, isTimeOf(mp))
		}
		isMap := func(n *core.Node) bool {
			return n.N != nil && len(core.CallsIn(info, n.N, mapPoint, core.WalkOpts{})) > 0
		}
		rr := g.Reach([]*core.Node{bodyN}, nil, core.EdgeEstablishingM3(info, body, notStale))
		bad := false
		var at *core.Node
		for _, n := range g.Select(isMap) {
			if rr[n] {
				bad, at = true, n
			}
		}
		if bad {
			r.Bad("retention-drop-exact", f.String(), "MapPoint-without-cut-off-test", g.Line(at),
				"the mapping loop reaches MapPoint without having established !p.Time().Before(cut-off): a point older than now-Duration is accepted whenever another point of the same request made its shard group enter the list (rejection then depends on batch-mates, not only on the timestamp)")
		} else {
			r.Ok("retention-drop-exact", f.String(), posOfRW5(p, mapLoop), "MapPoint only on paths that established the point is not older than the cut-off")
		}
	}
}

// ---------------------------------------------------------------- dropped count reporting

func c19DroppedReport(p *core.Prog, r *core.Report) {
	const rule = "dropped-report"
	pk := p.Pkg(coordP)
	if pk == nil {
		return
	}
	fRet := core.LookupField(pk.Types, "ShardMapping", "RetentionDropped")
	fWW := core.LookupField(pk.Types, "ShardMapping", "WriteWindowDropped")
	rpBound, _ := pk.Types.Scope().Lookup("RetentionPolicyBound").(*types.Const)
	if !r.Check(fRet != nil && fWW != nil && rpBound != nil, "anchor", coordP+".ShardMapping.RetentionDropped", "unresolved", "-", "fields resolved") {
		return
	}
	if f := r.Need(p, coordP, "ShardMapping.AddDropped"); f != nil {
		info, g := f.Info(), f.Graph()
		var bParam types.Object
		if g.Sig.Params().Len() == 3 {
			bParam = g.Sig.Params().At(2)
		}
		// RetentionDropped++ exactly on the switch arm `case RetentionPolicyBound` of the reason parameter
		incs := g.Select(func(n *core.Node) bool {
			s, ok := n.N.(*ast.IncDecStmt)
			return ok && s.Tok == token.INC && core.FieldOf(info, s.X) == fRet
		})
		if r.Check(len(incs) == 1 && bParam != nil, rule, f.String(), "RetentionDropped++:absent", f.Pos(), "one increment of RetentionDropped") {
			armEdge := func(e *core.Edge) bool {
				if e.Tag == nil || !e.Branch || core.ObjOf(info, e.Tag) != bParam {
					return false
				}
				c, ok := core.BaseObj(info, e.Cond).(*types.Const)
				return ok && c == rpBound
			}
			bad := g.NotReachableUnless(func(n *core.Node) bool { return n == incs[0] }, nil, armEdge)
			r.Check(len(bad) == 0, rule, f.String(), "RetentionDropped++:arm", g.Line(incs[0]), "RetentionDropped is incremented only on the RetentionPolicyBound arm of the reason switch")
			// and that arm cannot be left without the increment
			var from []*core.Node
			for _, n := range g.Nodes {
				for _, e := range n.Succ {
					if armEdge(e) {
						from = append(from, e.To)
					}
				}
			}
			rr := g.Reach(from, func(n *core.Node) bool { return n == incs[0] }, nil)
			okArm := len(from) >= 1
			for _, x := range g.Exits {
				if rr[x] {
					okArm = false
				}
			}
			r.Check(okArm, rule, f.String(), "RetentionDropped++:always", g.Line(incs[0]), "every call with reason RetentionPolicyBound increments RetentionDropped")
		}
	}
	if f := r.Need(p, coordP, "ShardMapping.Dropped"); f != nil {
		info, g := f.Info(), f.Graph()
		ok := false
		if len(g.Exits) == 1 {
			if rs, isRet := g.Exits[0].N.(*ast.ReturnStmt); isRet && len(rs.Results) == 1 {
				if be, isBin := ast.Unparen(rs.Results[0]).(*ast.BinaryExpr); isBin && be.Op == token.ADD {
					fr := core.FieldsRead(info, be)
					ok = fr[fRet] && fr[fWW]
				}
			}
		}
		r.Check(ok, rule, f.String(), "sum", f.Pos(), "Dropped() is the sum of RetentionDropped and WriteWindowDropped")
	}
	if f := r.Need(p, coordP, "PointsWriter.WritePointsPrivileged"); f != nil {
		info, g, body := f.Info(), f.Graph(), f.Decl.Body
		dropped := call(coordP + ".ShardMapping.Dropped")
		// err = tsdb.PartialWriteError{…, Dropped: mapping.Dropped(), …}
		var node *core.Node
		var errObj types.Object
		for _, n := range g.Nodes {
			as, ok := n.N.(*ast.AssignStmt)
			if !ok || len(as.Lhs) != 1 || len(as.Rhs) != 1 {
				continue
			}
			cl, ok := ast.Unparen(as.Rhs[0]).(*ast.CompositeLit)
			if !ok {
				continue
			}
			nt, ok := info.TypeOf(cl).(*types.Named)
			if !ok || nt.Obj().Name() != "PartialWriteError" || nt.Obj().Pkg() == nil || core.Short(nt.Obj().Pkg().Path()) != "tsdb" {
				continue
			}
			for _, el := range cl.Elts {
				kv, ok := el.(*ast.KeyValueExpr)
				if !ok {
					continue
				}
				if k, ok := kv.Key.(*ast.Ident); ok && k.Name == "Dropped" {
					if dc := core.AsCall(info, core.ResolveLocal(info, body, kv.Value), dropped); dc != nil {
						// receiver is the MapShards result
						if d, ok := core.SingleDef(info, body, core.ObjOf(info, core.Recv(dc))); ok && d.Rhs != nil && core.AsCall(info, d.Rhs, call(coordP+".PointsWriter.MapShards")) != nil {
							node, errObj = n, core.ObjOf(info, as.Lhs[0])
						}
					}
				}
			}
		}
		if r.Check(node != nil && errObj != nil, rule, f.String(), "PartialWriteError:absent", f.Pos(), "a tsdb.PartialWriteError carrying mapping.Dropped() is built from the MapShards result") {
			// guarded by a test of Dropped()
			guard := core.EdgeEstablishing(func(a ast.Expr, v bool) bool {
				x, op, c, ok := core.IntCmp(info, a)
				return ok && core.AsCall(info, core.ResolveLocal(info, body, x), dropped) != nil && c == 0 && (op == token.GTR && v || op == token.LEQ && !v || op == token.NEQ && v || op == token.EQL && !v)
			})
			bad := g.NotReachableUnless(func(n *core.Node) bool { return n == node }, nil, guard)
			r.Check(len(bad) == 0, rule, f.String(), "Dropped()>0-guard", g.Line(node), "the partial-write error is built only when Dropped() > 0")
			// every success exit after it returns that error variable, which is not overwritten
			rr := g.Reach(core.After(node, nil), nil, nil)
			okRet, nret := true, 0
			for _, x := range g.RealSuccessExits() {
				if !rr[x] {
					continue
				}
				rs, _ := x.N.(*ast.ReturnStmt)
				if rs == nil || len(rs.Results) != 1 || core.ObjOf(info, rs.Results[0]) != errObj {
					okRet = false
				}
				nret++
			}
			over := false
			for _, n := range g.Select(g.AssigningObj(errObj)) {
				if rr[n] && n != node {
					over = true
				}
			}
			r.Check(okRet && nret >= 1 && !over, rule, f.String(), "returned", g.Line(node), "every non-failing return after building the partial-write error returns it (not overwritten)")
		}
	}
}
