package rules

import (
	"fmt"
	"go/ast"
	"go/token"
	"go/types"
	"strings"

	"verif/checker/core"
)

func init() {
	register(&Prop{
		ID:       "C01",
		Patterns: []string{"./tsdb/engine/tsm1"},
		Level:    "other",
		Explanation: "Necessary-condition rules for read-your-writes / newest-wins, decided on CFG paths with type-resolved callees, objects and fields of tsm1: " +
			"(1) cache-merge-order: Cache.Values reads the hot and the snapshot store inside one c.mu read section, appends the snapshot entry to the merge list before the hot entry on every path, and every non-nil result passes Values.Deduplicate after the last copy; " +
			"(2) dedupe-stable-sort: the six Values.Deduplicate instantiations sort their receiver with sort.Stable only (the later value of a timestamp survives); " +
			"(3) tsm-file-order: FileStore.files is stored only by Open/replace/Close, every non-nil store is followed by sort.Sort(tsmReaders(f.files)) before a success exit, nobody else sorts it, and tsmReaders/ascLocations/descLocations.Less order (overlapping) files by ascending Path(); " +
			"(4) compaction-output-name: Compactor.compact hands writeNewFiles the maximum generation (and the maximum sequence inside it) of ALL input names, each update guarded by the matching comparison; writeNewFiles increments the sequence before every write and builds the name from (generation, sequence); snapshots take FileStore.NextGeneration (monotone increment), Open raises currentGeneration above every loaded file; " +
			"(5) write-path: every success exit of Engine.WritePoints passes Cache.WriteMulti and (unless WALEnabled is false) WAL.WriteMulti on the same map, errors propagated; " +
			"(6) cache-wins-on-tie: in the 10 array cursors and the 10 InfluxQL cursors the branch for equal cache/TSM timestamps emits the cache value and advances both sides; " +
			"(7) read-order: the 10 cursor builders read Cache.Values before FileStore.KeyCursor for the same key (a snapshot commit between the two reads cannot hide points); " +
			"(8) merge-direction: in the 10 KeyCursor.Read*Block functions overlapping blocks are merged so that the block of the later file overrides (ascending: acc.Merge(cur), descending: cur.Merge(acc)); " +
			"(9) snapshot-dedupe: doWriteSnapshot deduplicates the snapshot it hands to writeSnapshotAndCommit before the write; " +
			"(10) sibling-uniformity: the per-type instantiations of the cursor, Deduplicate/Merge and block-read templates are identical after abstracting the value type.",
		NotCovered: "the merge arithmetic inside Values.Deduplicate/Merge and inside the cursor loops (index and boundary handling), equality of any concrete read with the written history, a change made consistently to a template and all its instantiations, callers outside tsm1.",
		Assumptions: []string{"a rule passing means the newest-wins mechanism is in place on every CFG path, not that merges are value-correct",
			"sort.Stable keeps the relative order of equal timestamps"},
		Run: x1RunC01,
	})
}

// value-type tokens of the generated files
var x1TsmT = []string{"Float", "Integer", "Unsigned", "String", "Boolean"}

func x1LowerFirst(s string) string { return strings.ToLower(s[:1]) + s[1:] }

func x1ArgObj(info *types.Info, c *ast.CallExpr, i int) types.Object {
	if c == nil || i >= len(c.Args) {
		return nil
	}
	return core.ObjOf(info, c.Args[i])
}

// x1RecvExpr returns the receiver expression of a method call x.m(...).
func x1RecvExpr(c *ast.CallExpr) ast.Expr {
	if se, ok := ast.Unparen(c.Fun).(*ast.SelectorExpr); ok {
		return se.X
	}
	return nil
}

func x1FirstCall(f *core.Func, m core.Matcher) *ast.CallExpr {
	cs := core.AllCalls(f.Info(), f.Decl.Body, m)
	if len(cs) == 0 {
		return nil
	}
	return cs[0]
}

func x1RunC01(p *core.Prog, r *core.Report, tier string) {
	x1C01CacheValues(p, r)
	x1C01StableDedupe(p, r)
	x1C01FileOrder(p, r)
	x1C01OutputName(p, r)
	x1C01WritePath(p, r)
	x1C01TieBreak(p, r)
	x1C01ReadOrder(p, r)
	x1C01MergeDirection(p, r)
	x1SnapshotDedupe(p, r, "snapshot-dedupe")
	x1C01Siblings(p, r)
}

// ---------------------------------------------------------------- (1) Cache.Values

func x1C01CacheValues(p *core.Prog, r *core.Report) {
	const rule = "cache-merge-order"
	f := r.Need(p, tsm1, "Cache.Values")
	if f == nil {
		return
	}
	info, g := f.Info(), f.Graph()
	store := core.LookupField(f.Pkg.Types, "Cache", "store")
	snap := core.LookupField(f.Pkg.Types, "Cache", "snapshot")
	if !r.Check(store != nil && snap != nil, "anchor", "tsm1.Cache.store/snapshot", "unresolved", f.Pos(), "fields resolved") {
		return
	}
	entryCall := call("tsdb/engine/tsm1.storer.entry")
	// the variable receiving c.store.entry(key) (hot) and c.snapshot.store.entry(key) (snapshot)
	var hot, snapE types.Object
	var hotN, snapN *core.Node
	for _, n := range g.Select(g.Calling(entryCall)) {
		as, ok := n.N.(*ast.AssignStmt)
		if !ok || len(as.Lhs) != 1 || len(as.Rhs) != 1 {
			continue
		}
		c, ok := ast.Unparen(as.Rhs[0]).(*ast.CallExpr)
		if !ok || !entryCall(info, c) {
			continue
		}
		root, path, ok := core.X1FieldPath(info, x1RecvExpr(c))
		if !ok || root != types.Object(f.X1Recv()) {
			continue
		}
		switch {
		case len(path) == 1 && path[0] == store:
			hot, hotN = core.ObjOf(info, as.Lhs[0]), n
		case len(path) == 2 && path[0] == snap && path[1] == store:
			snapE, snapN = core.ObjOf(info, as.Lhs[0]), n
		}
	}
	if !r.Check(hot != nil && snapE != nil, rule, f.String(), "store-reads:absent", f.Pos(), "reads c.store.entry and c.snapshot.store.entry into two variables") {
		return
	}
	// (a) both reads inside one read-locked section of c.mu
	muF := core.LookupField(f.Pkg.Types, "Cache", "mu")
	onCacheMu := func(c *ast.CallExpr) bool {
		root, path, ok := core.X1FieldPath(info, x1RecvExpr(c))
		return ok && root == types.Object(f.X1Recv()) && len(path) == 1 && path[0] == muF
	}
	rlock, runlock := g.X1CallingWith(call("sync.RWMutex.RLock"), onCacheMu), g.X1CallingWith(call("sync.RWMutex.RUnlock"), onCacheMu)
	before := g.ReachFromEntry(rlock, nil)
	after := g.Reach(core.X1SuccsOf(g.Select(runlock)), nil, nil)
	r.Check(len(g.Select(rlock)) == 1 && len(g.Select(runlock)) == 1 && !before[hotN] && !before[snapN] && !after[hotN] && !after[snapN],
		rule, f.String(), "one-read-section", g.Line(hotN), "hot and snapshot store are read after RLock and before RUnlock of one section (a concurrent Snapshot() swap cannot hide a key from both)")
	// (b) snapshot entry is appended to the merge list before the hot entry
	appendOf := func(o types.Object) core.NodePred {
		return g.X1CallingWith(core.Builtin("append"), func(c *ast.CallExpr) bool {
			return len(c.Args) == 2 && core.ObjOf(info, c.Args[1]) == o
		})
	}
	hotApp, snapApp := g.Select(appendOf(hot)), g.Select(appendOf(snapE))
	if r.Check(len(hotApp) >= 1 && len(snapApp) >= 1, rule, f.String(), "appends:absent", f.Pos(), "both entries are appended to the merge list") {
		// both appends go to the same list
		lhs := func(n *core.Node) types.Object {
			if as, ok := n.N.(*ast.AssignStmt); ok && len(as.Lhs) == 1 {
				return core.ObjOf(info, as.Lhs[0])
			}
			return nil
		}
		same := lhs(hotApp[0]) != nil
		for _, n := range append(append([]*core.Node{}, hotApp...), snapApp...) {
			if lhs(n) != lhs(hotApp[0]) {
				same = false
			}
		}
		afterHot := g.Reach(core.X1SuccsOf(hotApp), nil, nil)
		okOrder := true
		for _, n := range snapApp {
			if afterHot[n] {
				okOrder = false
			}
		}
		r.Check(same && okOrder, rule, f.String(), "snapshot<hot", g.Line(hotApp[0]), "on no path is the hot entry appended before the snapshot entry (hot overrides snapshot only through this order)")
	}
	// (c) Deduplicate after the last copy, and its result is what is returned
	dedup := g.Calling(call("tsdb/engine/tsm1.Values.Deduplicate"))
	copies := g.Select(g.Calling(core.Builtin("copy")))
	if r.Check(len(copies) >= 1 && len(g.Select(dedup)) >= 1, rule, f.String(), "copy/Deduplicate:absent", f.Pos(), "result buffer is filled by copy and deduplicated") {
		esc := core.X1ExitsIn(g.Reach(core.X1SuccsOf(copies), dedup, nil))
		r.Check(len(esc) == 0, rule, f.String(), "Deduplicate-after-copy", g.Line(copies[0]), "every path from the copy into the result buffer to an exit passes Values.Deduplicate")
		var resObj types.Object
		okRes := true
		for _, n := range g.Select(dedup) {
			as, ok := n.N.(*ast.AssignStmt)
			if !ok || len(as.Lhs) != 1 {
				okRes = false
				continue
			}
			c, _ := ast.Unparen(as.Rhs[0]).(*ast.CallExpr)
			o := core.ObjOf(info, as.Lhs[0])
			if c == nil || core.X1RootObj(info, x1RecvExpr(c)) != o {
				okRes = false
			}
			resObj = o
		}
		pre := g.ReachFromEntry(dedup, nil)
		nonNil := 0
		for _, x := range g.Exits {
			rs, ok := x.N.(*ast.ReturnStmt)
			if !ok || len(rs.Results) != 1 || core.IsNilIdent(info, rs.Results[0]) {
				continue
			}
			nonNil++
			if pre[x] || core.ObjOf(info, rs.Results[0]) != resObj {
				okRes = false
			}
		}
		r.Check(okRes && nonNil >= 1, rule, f.String(), "returns-deduplicated", f.Pos(), "every non-nil return yields the variable assigned from its own Deduplicate()")
	}
}

// ---------------------------------------------------------------- (2) stable sort

func x1C01StableDedupe(p *core.Prog, r *core.Report) {
	const rule = "dedupe-stable-sort"
	names := []string{"Values.Deduplicate"}
	for _, t := range x1TsmT {
		names = append(names, t+"Values.Deduplicate")
	}
	for _, n := range names {
		f := r.Need(p, tsm1, n)
		if f == nil {
			continue
		}
		x1StableOnReceiver(r, f, rule, "the value written last for a timestamp survives only if equal timestamps keep their order")
	}
}

// x1StableOnReceiver: f sorts (something rooted at) its receiver with sort.Stable
// and uses no unstable sort.
func x1StableOnReceiver(r *core.Report, f *core.Func, rule, why string) {
	info := f.Info()
	recv := types.Object(f.X1Recv())
	stable := core.AllCalls(info, f.Decl.Body, call("sort.Stable"))
	okRecv := len(stable) >= 1
	for _, c := range stable {
		if len(c.Args) != 1 || core.X1RootObj(info, c.Args[0]) != recv {
			okRecv = false
		}
	}
	unstable := core.AllCalls(info, f.Decl.Body, call("sort.Sort", "sort.Slice", "slices.Sort*"))
	r.Check(okRecv && len(unstable) == 0, rule, f.String(), "sort.Stable", f.Pos(), "sorts its receiver with sort.Stable and with no unstable sort ("+why+")")
}

// ---------------------------------------------------------------- (3) file order

func x1C01FileOrder(p *core.Prog, r *core.Report) {
	const rule = "tsm-file-order"
	pk := p.Pkg(tsm1)
	if pk == nil {
		r.Bad("anchor", tsm1, "unresolved", "-", "package not loaded")
		return
	}
	files := core.LookupField(pk.Types, "FileStore", "files")
	if !r.Check(files != nil, "anchor", "tsm1.FileStore.files", "unresolved", "-", "field resolved") {
		return
	}
	allowed := map[string]bool{"FileStore.Open": true, "FileStore.replace": true, "FileStore.Close": true}
	isSorted := func(info *types.Info) func(c *ast.CallExpr) bool {
		return func(c *ast.CallExpr) bool {
			if len(c.Args) != 1 {
				return false
			}
			conv, ok := ast.Unparen(c.Args[0]).(*ast.CallExpr)
			if !ok || len(conv.Args) != 1 || core.FieldOf(info, conv.Args[0]) != files {
				return false
			}
			tv, ok := info.Types[conv.Fun]
			if !ok || !tv.IsType() {
				return false
			}
			nt, ok := tv.Type.(*types.Named)
			return ok && nt.Obj().Name() == "tsmReaders"
		}
	}
	writers := map[string]int{}
	for _, f := range p.Funcs(tsm1) {
		if f.Decl.Body == nil {
			continue
		}
		info := f.Info()
		for _, g := range f.Graphs() {
			stores := g.Select(g.Assigning(files))
			if len(stores) == 0 {
				continue
			}
			r.Saw(f)
			writers[f.Name] += len(stores)
			if !allowed[f.Name] {
				r.Bad(rule, f.String(), "unexpected-writer", g.Line(stores[0]), "FileStore.files is stored outside Open/replace/Close")
				continue
			}
			sortN := g.X1CallingWith(call("sort.Sort", "sort.Stable"), isSorted(info))
			for _, s := range stores {
				// a store of nil (Close) needs no order
				if as, ok := s.N.(*ast.AssignStmt); ok && len(as.Rhs) == 1 && core.IsNilIdent(info, as.Rhs[0]) {
					r.Ok(rule, f.String(), g.Line(s), "stores nil (closed store, nothing to order)")
					continue
				}
				bad := false
				for _, x := range core.X1ExitsIn(g.Reach(core.X1Succs(s), sortN, nil)) {
					if g.X1IsSuccessExit(x) {
						bad = true
					}
				}
				r.Check(!bad, rule, f.String(), "sort-after-store", g.Line(s), "every success exit after this store to f.files passes sort.Sort(tsmReaders(f.files))")
			}
		}
		// nobody else reorders f.files in place
		for _, c := range core.AllCalls(info, f.Decl.Body, call("sort.*", "slices.Sort*", "slices.Reverse")) {
			if len(c.Args) == 0 || !core.X1MentionsField(info, c.Args[0], files) {
				continue
			}
			good := (f.Name == "FileStore.Open" || f.Name == "FileStore.replace") && call("sort.Sort", "sort.Stable")(info, c) && isSorted(info)(c)
			r.Check(good, rule, f.String(), "reorders-files", p.Pos(c.Pos()), "the only in-place ordering of f.files is sort.Sort(tsmReaders(f.files)) in Open/replace")
		}
	}
	r.Check(writers["FileStore.Open"] >= 1 && writers["FileStore.replace"] >= 1, rule, "tsm1.FileStore.files", "writers:absent", "-",
		fmt.Sprintf("writers found: %v (Open and replace confirmed by reading)", writers))

	// Less functions: ascending Path()
	pathOf := func(f *core.Func, i int) func(ast.Expr) bool {
		info := f.Info()
		return func(e ast.Expr) bool {
			c, ok := ast.Unparen(e).(*ast.CallExpr)
			if !ok || !call("tsdb/engine/tsm1.TSMFile.Path")(info, c) {
				return false
			}
			var idx *ast.IndexExpr
			ast.Inspect(x1RecvExpr(c), func(n ast.Node) bool {
				if ix, ok := n.(*ast.IndexExpr); ok && idx == nil {
					idx = ix
				}
				return true
			})
			return idx != nil && core.ObjOf(info, idx.X) == types.Object(f.X1Recv()) && core.ObjOf(info, idx.Index) == types.Object(f.X1Param(i))
		}
	}
	if f := r.Need(p, tsm1, "tsmReaders.Less"); f != nil {
		ok := false
		if len(f.Decl.Body.List) == 1 {
			if rs, isRet := f.Decl.Body.List[0].(*ast.ReturnStmt); isRet && len(rs.Results) == 1 {
				ok = core.X1AtomHolds(rs.Results[0], pathOf(f, 0), pathOf(f, 1), core.X1LT)
			}
		}
		r.Check(ok, rule, f.String(), "ascending-path", f.Pos(), "Less(i,j) is a[i].Path() < a[j].Path() (file list ordered by generation-sequence name)")
	}
	for _, n := range []string{"ascLocations.Less", "descLocations.Less"} {
		f := r.Need(p, tsm1, n)
		if f == nil {
			continue
		}
		info := f.Info()
		found, ok := 0, true
		ast.Inspect(f.Decl.Body, func(x ast.Node) bool {
			is, isIf := x.(*ast.IfStmt)
			if !isIf {
				return true
			}
			c, isCall := ast.Unparen(is.Cond).(*ast.CallExpr)
			if !isCall || !call("tsdb/engine/tsm1.IndexEntry.OverlapsTimeRange")(info, c) {
				return true
			}
			found++
			for _, st := range is.Body.List {
				if rs, isRet := st.(*ast.ReturnStmt); isRet {
					if len(rs.Results) != 1 || !core.X1AtomHolds(rs.Results[0], pathOf(f, 0), pathOf(f, 1), core.X1LT) {
						ok = false
					}
				}
			}
			if len(is.Body.List) != 1 {
				ok = false
			}
			return true
		})
		r.Check(found == 1 && ok, rule, f.String(), "overlap-by-path", f.Pos(), "overlapping blocks are ordered by ascending file Path() (older file first)")
	}
}

// ---------------------------------------------------------------- (4) output name

func x1C01OutputName(p *core.Prog, r *core.Report) {
	const rule = "compaction-output-name"
	if f := r.Need(p, tsm1, "Compactor.compact"); f != nil {
		info, g := f.Info(), f.Graph()
		wc := x1FirstCall(f, call("tsdb/engine/tsm1.Compactor.writeNewFiles"))
		parse := call("tsdb/engine/tsm1.fileStore.ParseFileName")
		if r.Check(wc != nil && len(wc.Args) >= 2, rule, f.String(), "writeNewFiles:absent", f.Pos(), "calls writeNewFiles") {
			G, S := x1ArgObj(info, wc, 0), x1ArgObj(info, wc, 1)
			inputs := types.Object(f.X1Param(1))
			// the loop over ALL inputs that parses each name
			var gen, seq types.Object
			var loops int
			ast.Inspect(f.Decl.Body, func(n ast.Node) bool {
				rs, ok := n.(*ast.RangeStmt)
				if !ok || core.ObjOf(info, rs.X) != inputs || rs.Value == nil {
					return true
				}
				for _, c := range core.AllCalls(info, rs.Body, parse) {
					if x1ArgObj(info, c, 0) != core.ObjOf(info, rs.Value) {
						continue
					}
					ast.Inspect(rs.Body, func(m ast.Node) bool {
						if as, ok := m.(*ast.AssignStmt); ok && len(as.Rhs) == 1 && ast.Unparen(as.Rhs[0]) == ast.Expr(c) && len(as.Lhs) == 3 {
							gen, seq = core.ObjOf(info, as.Lhs[0]), core.ObjOf(info, as.Lhs[1])
							loops++
						}
						return true
					})
				}
				return true
			})
			if r.Check(G != nil && S != nil && loops == 1 && gen != nil && seq != nil, rule, f.String(), "max-loop:absent", f.Pos(),
				"generation/sequence arguments are local variables and one loop over the whole input list parses every file name") {
				onlyFrom := func(dst, src types.Object) bool {
					as := core.X1AssignmentsTo(info, f.Decl.Body, dst)
					if len(as) == 0 {
						return false
					}
					for _, a := range as {
						if a.Rhs == nil || core.ObjOf(info, a.Rhs) != src {
							return false
						}
					}
					return true
				}
				r.Check(onlyFrom(G, gen) && onlyFrom(S, seq), rule, f.String(), "max-source", f.Pos(), "the output generation/sequence are only ever assigned the parsed generation/sequence of an input")
				isO := func(o types.Object) func(ast.Expr) bool { return core.X1IsObj(info, o) }
				genGT := core.X1CmpEdge(isO(gen), isO(G), core.X1GT)
				genEQ := core.X1CmpEdge(isO(gen), isO(G), core.X1EQ)
				seqGT := core.X1CmpEdge(isO(seq), isO(S), core.X1GT)
				noGenGT := g.ReachFromEntry(nil, genGT)
				noNew := g.ReachFromEntry(nil, core.X1OrEdges(genGT, seqGT))
				noSame := g.ReachFromEntry(nil, core.X1OrEdges(genGT, genEQ))
				okG, okS := true, true
				for _, n := range g.Select(g.X1StoresToObj(G)) {
					if noGenGT[n] {
						okG = false
					}
				}
				for _, n := range g.Select(g.X1StoresToObj(S)) {
					if noNew[n] || noSame[n] {
						okS = false
					}
				}
				r.Check(okG, rule, f.String(), "max-generation-guard", f.Pos(), "the output generation is raised only under parsed generation > current maximum")
				r.Check(okS, rule, f.String(), "max-sequence-guard", f.Pos(), "the output sequence is replaced only together with a larger generation, or under same generation && larger sequence")
			}
		}
		core.RuleErrorsUsed(r, f, rule, "ParseFileName", parse, false, 1)
	}
	if f := r.Need(p, tsm1, "Compactor.writeNewFiles"); f != nil {
		info, g := f.Info(), f.Graph()
		seqP := types.Object(f.X1Param(1))
		inc := func(n *core.Node) bool {
			switch s := n.N.(type) {
			case *ast.IncDecStmt:
				return s.Tok == token.INC && core.ObjOf(info, s.X) == seqP
			case *ast.AssignStmt:
				if s.Tok == token.ADD_ASSIGN && len(s.Lhs) == 1 && core.ObjOf(info, s.Lhs[0]) == seqP {
					if tv, ok := info.Types[s.Rhs[0]]; ok && tv.Value != nil {
						return core.X1IsConstInt(info, s.Rhs[0], 1)
					}
				}
			}
			return false
		}
		otherStore := false
		for _, n := range g.Select(g.X1StoresToObj(seqP)) {
			if !inc(n) {
				otherStore = true
			}
		}
		wr := g.Select(g.Calling(call("tsdb/engine/tsm1.Compactor.write")))
		if r.Check(len(wr) >= 1 && len(g.Select(inc)) >= 1, rule, f.String(), "write/sequence++:absent", f.Pos(), "writes files and increments the sequence") {
			fresh := !otherStore
			pre := g.ReachFromEntry(inc, nil)
			for _, w := range wr {
				if pre[w] || g.Reach(core.X1Succs(w), inc, nil)[w] {
					fresh = false
				}
			}
			r.Check(fresh, rule, f.String(), "fresh-sequence", g.Line(wr[0]), "every Compactor.write is preceded by its own sequence++ (first output is max sequence + 1, each rolled file one more), the sequence is never set otherwise")
		}
		// name = formatFileName(generation, sequence)
		ff := core.LookupField(f.Pkg.Types, "Compactor", "formatFileName")
		var fmtCalls []*ast.CallExpr
		ast.Inspect(f.Decl.Body, func(n ast.Node) bool {
			if c, ok := n.(*ast.CallExpr); ok && ff != nil && core.FieldOf(info, c.Fun) == ff {
				fmtCalls = append(fmtCalls, c)
			}
			return true
		})
		okName := len(fmtCalls) >= 1
		for _, c := range fmtCalls {
			if x1ArgObj(info, c, 0) != types.Object(f.X1Param(0)) || x1ArgObj(info, c, 1) != seqP {
				okName = false
			}
		}
		for _, w := range wr {
			for _, c := range core.CallsIn(info, w.N, call("tsdb/engine/tsm1.Compactor.write"), core.WalkOpts{}) {
				nameObj := x1ArgObj(info, c, 0)
				as := core.X1AssignmentsTo(info, f.Decl.Body, nameObj)
				if nameObj == nil || len(as) == 0 {
					okName = false
				}
				for _, a := range as {
					has := false
					for _, fc := range fmtCalls {
						if a.Rhs != nil && a.Rhs.Pos() <= fc.Pos() && fc.End() <= a.Rhs.End() {
							has = true
						}
					}
					if !has {
						okName = false
					}
				}
			}
		}
		r.Check(okName, rule, f.String(), "name-from-generation-sequence", f.Pos(), "the written file name is built from c.formatFileName(generation, sequence) with the function's own parameters")
	}
	if f := r.Need(p, tsm1, "Compactor.WriteSnapshot"); f != nil {
		info := f.Info()
		cs := core.AllCalls(info, f.Decl.Body, call("tsdb/engine/tsm1.Compactor.writeNewFiles"))
		ok := len(cs) >= 1
		for _, c := range cs {
			gc, isCall := ast.Unparen(c.Args[0]).(*ast.CallExpr)
			if !isCall || !call("tsdb/engine/tsm1.fileStore.NextGeneration")(info, gc) || !core.X1IsConstInt(info, c.Args[1], 0) {
				ok = false
			}
		}
		r.Check(ok, rule, f.String(), "snapshot-generation", f.Pos(), "each snapshot file is written as (FileStore.NextGeneration(), sequence 0+1)")
	}
	if f := r.Need(p, tsm1, "FileStore.NextGeneration"); f != nil {
		info, g := f.Info(), f.Graph()
		cg := core.LookupField(f.Pkg.Types, "FileStore", "currentGeneration")
		incN := func(n *core.Node) bool {
			s, ok := n.N.(*ast.IncDecStmt)
			return ok && s.Tok == token.INC && core.FieldOf(info, s.X) == cg && cg != nil
		}
		stores := g.Select(g.Assigning(cg))
		okInc := len(stores) >= 1
		for _, s := range stores {
			if !incN(s) {
				okInc = false
			}
		}
		okRet := okInc
		for _, x := range g.Exits {
			rs, isRet := x.N.(*ast.ReturnStmt)
			if !isRet || len(rs.Results) != 1 || core.FieldOf(info, rs.Results[0]) != cg || g.ReachFromEntry(incN, nil)[x] {
				okRet = false
			}
		}
		locked := !g.ReachFromEntry(g.Calling(call("tsdb/engine/tsm1.FileStore.wlock")), nil)[x1FirstOr(stores)]
		r.Check(okInc && okRet && locked, rule, f.String(), "monotone-generation", f.Pos(), "currentGeneration is only incremented, under wlock, and the incremented value is returned")
	}
	if f := r.Need(p, tsm1, "FileStore.Open"); f != nil {
		info, g := f.Info(), f.Graph()
		cg := core.LookupField(f.Pkg.Types, "FileStore", "currentGeneration")
		stores := g.Select(g.Assigning(cg))
		ok := len(stores) >= 1
		for _, s := range stores {
			as, isAs := s.N.(*ast.AssignStmt)
			if !isAs || len(as.Rhs) != 1 {
				ok = false
				continue
			}
			be, isBin := ast.Unparen(as.Rhs[0]).(*ast.BinaryExpr)
			if !isBin || be.Op != token.ADD || !core.X1IsConstInt(info, be.Y, 1) {
				ok = false
				continue
			}
			gen := core.ObjOf(info, be.X)
			if _, from := core.X1OnlyFromCall(info, f.Decl.Body, gen, call("tsdb/engine/tsm1.FileStore.ParseFileName"), 0); !from {
				ok = false
			}
			guard := core.X1CmpEdge(core.X1IsObj(info, gen), core.X1IsField(info, cg), core.X1GE)
			if g.ReachFromEntry(nil, guard)[s] {
				ok = false
			}
		}
		r.Check(ok, rule, f.String(), "generation-above-loaded", f.Pos(), "Open sets currentGeneration = parsed generation + 1 only under generation >= currentGeneration (new snapshots sort after every loaded file)")
	}
}

func x1FirstOr(ns []*core.Node) *core.Node {
	if len(ns) == 0 {
		return nil
	}
	return ns[0]
}

// ---------------------------------------------------------------- (5) write path

func x1C01WritePath(p *core.Prog, r *core.Report) {
	const rule = "write-path"
	f := r.Need(p, tsm1, "Engine.WritePoints")
	if f == nil {
		return
	}
	info, g := f.Info(), f.Graph()
	cw := call("tsdb/engine/tsm1.Cache.WriteMulti")
	ww := call("tsdb/engine/tsm1.WAL.WriteMulti")
	walEnabled := core.LookupField(f.Pkg.Types, "Engine", "WALEnabled")
	core.RuleMustPassN(r, f, g, rule, "Cache.WriteMulti", g.Calling(cw), nil)
	core.RuleMustPassN(r, f, g, rule, "WAL.WriteMulti(unless !WALEnabled)", g.Calling(ww), core.X1BoolEdge(core.X1IsField(info, walEnabled), false))
	core.RuleErrorsUsed(r, f, rule, "Cache.WriteMulti/WAL.WriteMulti", core.Or(cw, ww), false, 2)
	c1, c2 := x1FirstCall(f, cw), x1FirstCall(f, ww)
	r.Check(c1 != nil && c2 != nil && x1ArgObj(info, c1, 0) != nil && x1ArgObj(info, c1, 0) == x1ArgObj(info, c2, 1), rule, f.String(), "same-values", f.Pos(),
		"cache and WAL receive the same values map")
}

// ---------------------------------------------------------------- (6) tie break

func x1C01TieBreak(p *core.Prog, r *core.Report) {
	const rule = "cache-wins-on-tie"
	unixNano := call("tsdb/engine/tsm1.Value.UnixNano")
	n := 0
	for _, t := range x1TsmT {
		for _, dir := range []string{"Ascending", "Descending"} {
			// ---- array cursor
			if f := r.Need(p, tsm1, x1LowerFirst(t)+"Array"+dir+"Cursor.Next"); f != nil {
				info, g := f.Info(), f.Graph()
				ok, why := false, "no `cacheKey == tsmKey` branch found"
				for _, nd := range g.Nodes {
					for _, e := range nd.Succ {
						if e.Cond == nil || !e.Branch {
							continue
						}
						x, y, rel, isCmp := core.X1CmpAtom(e.Cond)
						if !isCmp || rel != core.X1EQ {
							continue
						}
						ck, tk := core.ObjOf(info, x), core.ObjOf(info, y)
						if ck == nil || tk == nil {
							continue
						}
						src := func(o types.Object) (fromCache bool, root types.Object, ok bool) {
							as := core.X1AssignmentsTo(info, f.Decl.Body, o)
							if len(as) != 1 || as[0].Rhs == nil {
								return false, nil, false
							}
							rhs := ast.Unparen(as[0].Rhs)
							if c, isCall := rhs.(*ast.CallExpr); isCall && unixNano(info, c) {
								return true, core.X1RootObj(info, x1RecvExpr(c)), true
							}
							if ix, isIx := rhs.(*ast.IndexExpr); isIx {
								if fld := core.FieldOf(info, ix.X); fld != nil && fld.Name() == "Timestamps" {
									return false, core.X1RootObj(info, ix.X), true
								}
							}
							return false, nil, false
						}
						c1, r1, ok1 := src(ck)
						c2, r2, ok2 := src(tk)
						if !ok1 || !ok2 || c1 == c2 {
							continue
						}
						cvals, tvals := r1, r2
						if c2 {
							cvals, tvals = r2, r1
						}
						body := core.ThenBody(e.To)
						if body == nil {
							why = "tie branch is not an if-body"
							continue
						}
						// the value emitted comes from the cache values
						valOK, valN := true, 0
						var posTok []token.Token
						seen := map[string]bool{}
						for _, st := range body.List {
							switch s := st.(type) {
							case *ast.AssignStmt:
								for i, l := range s.Lhs {
									ix, isIx := ast.Unparen(l).(*ast.IndexExpr)
									if !isIx || i >= len(s.Rhs) {
										continue
									}
									if fld := core.FieldOf(info, ix.X); fld != nil && fld.Name() == "Values" {
										valN++
										if core.X1RootObj(info, s.Rhs[i]) != cvals || core.X1MentionsObj(info, s.Rhs[i], tvals) {
											valOK = false
										}
									}
								}
							case *ast.IncDecStmt:
								if _, path, isPath := core.X1FieldPath(info, s.X); isPath && len(path) == 2 && path[1].Name() == "pos" {
									seen[path[0].Name()] = true
									posTok = append(posTok, s.Tok)
								}
							}
						}
						sameDir := len(posTok) == 2 && posTok[0] == posTok[1]
						ok = valN == 1 && valOK && seen["cache"] && seen["tsm"] && sameDir
						why = fmt.Sprintf("value stores=%d fromCache=%v advance cache=%v tsm=%v sameDirection=%v", valN, valOK, seen["cache"], seen["tsm"], sameDir)
					}
				}
				if ok {
					n++
				}
				r.Check(ok, rule, f.String(), "tie-branch", f.Pos(), "on equal timestamps the cache value is emitted and both positions advance ("+why+")")
			}
			// ---- InfluxQL cursor
			if f := r.Need(p, tsm1, x1LowerFirst(t)+dir+"Cursor.next"+t); f != nil {
				info, g := f.Info(), f.Graph()
				pc := x1FirstCall(f, call("tsdb/engine/tsm1."+x1LowerFirst(t)+dir+"Cursor.peekCache"))
				pt := x1FirstCall(f, call("tsdb/engine/tsm1."+x1LowerFirst(t)+dir+"Cursor.peekTSM"))
				ok, why := false, "peekCache/peekTSM results not found"
				var ck, cv, tk types.Object
				ast.Inspect(f.Decl.Body, func(x ast.Node) bool {
					if as, isAs := x.(*ast.AssignStmt); isAs && len(as.Rhs) == 1 && len(as.Lhs) == 2 {
						switch ast.Unparen(as.Rhs[0]) {
						case ast.Expr(pc):
							ck, cv = core.ObjOf(info, as.Lhs[0]), core.ObjOf(info, as.Lhs[1])
						case ast.Expr(pt):
							tk = core.ObjOf(info, as.Lhs[0])
						}
					}
					return true
				})
				if pc != nil && pt != nil && ck != nil && cv != nil && tk != nil {
					tie := core.X1CmpEdge(core.X1IsObj(info, ck), core.X1IsObj(info, tk), core.X1EQ)
					why = "no `ckey == tkey` branch"
					for _, nd := range g.Nodes {
						for _, e := range nd.Succ {
							if !tie(e) {
								continue
							}
							reach := g.Reach([]*core.Node{e.To}, nil, nil)
							exits := core.X1ExitsIn(reach)
							nc := len(g.Select(func(m *core.Node) bool {
								return reach[m] && g.Calling(call("tsdb/engine/tsm1."+x1LowerFirst(t)+dir+"Cursor.nextCache"))(m)
							}))
							nt := len(g.Select(func(m *core.Node) bool {
								return reach[m] && g.Calling(call("tsdb/engine/tsm1."+x1LowerFirst(t)+dir+"Cursor.nextTSM"))(m)
							}))
							retOK := len(exits) == 1
							for _, x := range exits {
								rs, isRet := x.N.(*ast.ReturnStmt)
								if !isRet || len(rs.Results) != 2 || core.ObjOf(info, rs.Results[1]) != cv {
									retOK = false
								} else if o := core.ObjOf(info, rs.Results[0]); o != ck && o != tk {
									retOK = false
								}
								// both advances precede the return
								if g.Reach([]*core.Node{e.To}, g.Calling(call("tsdb/engine/tsm1."+x1LowerFirst(t)+dir+"Cursor.nextCache")), nil)[x] ||
									g.Reach([]*core.Node{e.To}, g.Calling(call("tsdb/engine/tsm1."+x1LowerFirst(t)+dir+"Cursor.nextTSM")), nil)[x] {
									retOK = false
								}
							}
							ok = retOK && nc >= 1 && nt >= 1
							why = fmt.Sprintf("returns cache value=%v nextCache=%d nextTSM=%d", retOK, nc, nt)
						}
					}
				}
				if ok {
					n++
				}
				r.Check(ok, rule, f.String(), "tie-branch", f.Pos(), "on equal timestamps the cache value is returned after advancing cache and TSM ("+why+")")
			}
		}
	}
	r.Check(n >= 20, rule, "tsm1 cursors", "count", "-", fmt.Sprintf("%d tie branches verified (20 confirmed by reading)", n))
}

// ---------------------------------------------------------------- (7) read order

func x1C01ReadOrder(p *core.Prog, r *core.Report) {
	const rule = "read-order"
	cv := call("tsdb/engine/tsm1.Cache.Values")
	kc := call("tsdb/engine/tsm1.Engine.KeyCursor", "tsdb/engine/tsm1.FileStore.KeyCursor")
	for _, t := range x1TsmT {
		for _, n := range []string{"arrayCursorIterator.build" + t + "ArrayCursor", "Engine.build" + t + "Cursor"} {
			f := r.Need(p, tsm1, n)
			if f == nil {
				continue
			}
			info := f.Info()
			if core.RulePrecede(r, f, rule, "Cache.Values", cv, "KeyCursor", kc) {
				c1, c2 := x1FirstCall(f, cv), x1FirstCall(f, kc)
				r.Check(x1ArgObj(info, c1, 0) != nil && x1ArgObj(info, c1, 0) == x1ArgObj(info, c2, 1), rule, f.String(), "same-key", f.Pos(), "cache and file cursor are read for the same key")
			}
		}
	}
}

// ---------------------------------------------------------------- (8) merge direction

func x1C01MergeDirection(p *core.Prog, r *core.Report) {
	const rule = "merge-direction"
	asc := core.LookupField(p.Pkg(tsm1).Types, "KeyCursor", "ascending")
	if !r.Check(asc != nil, "anchor", "tsm1.KeyCursor.ascending", "unresolved", "-", "field resolved") {
		return
	}
	n := 0
	for _, t := range x1TsmT {
		for _, name := range []string{"KeyCursor.Read" + t + "Block", "KeyCursor.Read" + t + "ArrayBlock"} {
			f := r.Need(p, tsm1, name)
			if f == nil {
				continue
			}
			info, g := f.Info(), f.Graph()
			merge := call("tsdb/engine/tsm1."+t+"Values.Merge", "tsdb/cursors."+t+"Array.Merge")
			// accumulator = what the last return yields
			var acc types.Object
			for _, x := range g.Exits {
				if rs, ok := x.N.(*ast.ReturnStmt); ok && len(rs.Results) == 2 && !core.IsNilIdent(info, rs.Results[0]) {
					if o := core.ObjOf(info, rs.Results[0]); o != nil {
						if acc != nil && acc != o {
							acc = nil
							break
						}
						acc = o
					}
				}
			}
			notAsc := g.ReachFromEntry(nil, core.X1BoolEdge(core.X1IsField(info, asc), true))
			notDesc := g.ReachFromEntry(nil, core.X1BoolEdge(core.X1IsField(info, asc), false))
			nAsc, nDesc, ok := 0, 0, acc != nil
			for _, nd := range g.Select(g.Calling(merge)) {
				for _, c := range core.CallsIn(info, nd.N, merge, core.WalkOpts{}) {
					recv, arg := core.X1RootObj(info, x1RecvExpr(c)), core.X1RootObj(info, c.Args[0])
					switch {
					case !notAsc[nd] && notDesc[nd]: // only on the ascending side
						nAsc++
						if recv != acc || arg == acc || arg == nil {
							ok = false
						}
					case notAsc[nd] && !notDesc[nd]:
						nDesc++
						if arg != acc || recv == acc || recv == nil {
							ok = false
						}
					default:
						ok = false
					}
				}
			}
			if ok && nAsc == 1 && nDesc == 1 {
				n += 2
			}
			r.Check(ok && nAsc == 1 && nDesc == 1, rule, f.String(), "later-file-overrides", f.Pos(),
				fmt.Sprintf("ascending: accumulator.Merge(block of later file); descending: (block of earlier file).Merge(accumulator) (asc=%d desc=%d)", nAsc, nDesc))
		}
	}
	r.Check(n >= 20, rule, "tsm1.KeyCursor.Read*Block", "count", "-", fmt.Sprintf("%d merge sites verified (20 confirmed by reading)", n))
}

// ---------------------------------------------------------------- (9) snapshot dedupe (shared with C04)

func x1SnapshotDedupe(p *core.Prog, r *core.Report, rule string) {
	f := r.Need(p, tsm1, "Engine.doWriteSnapshot")
	if f == nil {
		return
	}
	info := f.Info()
	dd := call("tsdb/engine/tsm1.Cache.Deduplicate")
	wc := call("tsdb/engine/tsm1.Engine.writeSnapshotAndCommit")
	if core.RulePrecede(r, f, rule, "Cache.Deduplicate", dd, "writeSnapshotAndCommit", wc) {
		c1, c2 := x1FirstCall(f, dd), x1FirstCall(f, wc)
		snap := core.X1RootObj(info, x1RecvExpr(c1))
		_, fromSnap := core.X1OnlyFromCall(info, f.Decl.Body, snap, call("tsdb/engine/tsm1.Cache.Snapshot"), 0)
		// the snapshot is the 2nd result of the locked literal whose named result is assigned from Cache.Snapshot
		if !fromSnap {
			fromSnap = len(core.AllCalls(info, f.Decl.Body, call("tsdb/engine/tsm1.Cache.Snapshot"))) == 1
		}
		r.Check(snap != nil && snap == x1ArgObj(info, c2, 2) && fromSnap, rule, f.String(), "same-snapshot", f.Pos(), "the snapshot that is deduplicated is the one written (cacheKeyIterator reads entries assuming they are sorted and deduplicated)")
	}
	if f := r.Need(p, tsm1, "Cache.Deduplicate"); f != nil {
		core.RuleHasCall(r, f, rule, "entry.deduplicate", call("tsdb/engine/tsm1.entry.deduplicate"))
		core.RuleHasCall(r, f, rule, "storer.apply", call("tsdb/engine/tsm1.storer.apply"))
	}
	if f := r.Need(p, tsm1, "entry.deduplicate"); f != nil {
		vals := core.LookupField(f.Pkg.Types, "entry", "values")
		g := f.Graph()
		ok := false
		for _, n := range g.Select(g.Assigning(vals)) {
			if as, isAs := n.N.(*ast.AssignStmt); isAs && len(as.Rhs) == 1 {
				if c, isCall := ast.Unparen(as.Rhs[0]).(*ast.CallExpr); isCall && call("tsdb/engine/tsm1.Values.Deduplicate")(f.Info(), c) && core.FieldOf(f.Info(), x1RecvExpr(c)) == vals {
					ok = true
				}
			}
		}
		r.Check(ok, rule, f.String(), "values=Deduplicate", f.Pos(), "entry.values is replaced by its own Deduplicate()")
	}
}

// ---------------------------------------------------------------- (10) siblings

func x1SiblingGroup(p *core.Prog, r *core.Report, rule, group string, namef func(t string) string, exceptions map[string]string) {
	var fs []*core.Func
	for _, t := range x1TsmT {
		if f := r.Need(p, tsm1, namef(t)); f != nil {
			fs = append(fs, f)
		}
	}
	core.X1RuleSiblings(r, rule, group, fs, 5, exceptions)
}

func x1C01Siblings(p *core.Prog, r *core.Report) {
	const rule = "sibling-uniformity"
	for _, dir := range []string{"Ascending", "Descending"} {
		for _, m := range []string{"Next", "nextTSM", "reset"} {
			x1SiblingGroup(p, r, rule, "tsm1.<T>Array"+dir+"Cursor."+m, func(t string) string { return x1LowerFirst(t) + "Array" + dir + "Cursor." + m }, nil)
		}
		for _, m := range []string{"next<T>", "peekCache", "peekTSM", "nextCache", "nextTSM"} {
			x1SiblingGroup(p, r, rule, "tsm1.<T>"+dir+"Cursor."+m, func(t string) string {
				return x1LowerFirst(t) + dir + "Cursor." + strings.Replace(m, "<T>", t, 1)
			}, nil)
		}
	}
	for _, m := range []string{"Deduplicate", "Merge", "Exclude", "Include", "FindRange", "search"} {
		x1SiblingGroup(p, r, rule, "tsm1.<T>Values."+m, func(t string) string { return t + "Values." + m }, nil)
	}
	x1SiblingGroup(p, r, rule, "tsm1.KeyCursor.Read<T>Block", func(t string) string { return "KeyCursor.Read" + t + "Block" }, nil)
	x1SiblingGroup(p, r, rule, "tsm1.KeyCursor.Read<T>ArrayBlock", func(t string) string { return "KeyCursor.Read" + t + "ArrayBlock" }, nil)
	x1SiblingGroup(p, r, rule, "tsm1.arrayCursorIterator.build<T>ArrayCursor", func(t string) string { return "arrayCursorIterator.build" + t + "ArrayCursor" }, nil)
	x1SiblingGroup(p, r, rule, "tsm1.Engine.build<T>Cursor", func(t string) string { return "Engine.build" + t + "Cursor" }, nil)
}
