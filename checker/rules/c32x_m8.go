package rules

import (
	"fmt"
	"go/ast"
	"go/constant"
	"go/token"
	"go/types"

	"verif/checker/core"
)

// C32 extension (m8): survivor-driven rules.
//
//	probe-verdict        the over-limit probe of LimitedReadCloser.Read sets
//	                     limitExceeded exactly where the probe delivered data, and
//	                     a probe error other than io.EOF is returned, not turned
//	                     into a clean end of body
//	error-written        HandleHTTPError writes an error response for every
//	                     non-nil error and keeps the text of a platform error
//	status-lookup        ErrorCodeToStatusCode consults the code→status table for
//	                     every live request and returns what it found
//	write-error-kept     LoggingPointsWriter returns the underlying write error
//	                     (it carries the dropped count) unless logging itself failed
func init() {
	extend("C32", "probe-verdict: in LimitedReadCloser.Read the over-limit probe sets limitExceeded only on a branch establishing that the probe returned data (count > 0) and on every such path; from the probe no exit is reachable that returns something other than the probe's error unless a branch established count > 0, error == nil or error == io.EOF; "+
		"error-written: ErrorHandler.HandleHTTPError reaches WriteErrorResponse on every path except through `err == nil`, the generic replacement text is assigned only where errors.As found no platform error, and a platform error's own Error() text is what is written; "+
		"status-lookup: ErrorCodeToStatusCode reaches the lookup in the code→status table on every path except through ctx.Err() == DeadlineExceeded/Canceled, returns the looked-up status only where the lookup succeeded and always then; "+
		"write-error-kept: after a failed underlying write LoggingPointsWriter.WritePoints returns that error on every path, whatever happens to the log entry (lookup failure, no log bucket, failed log write).",
		nil, func(p *core.Prog, r *core.Report, tier string) {
			c32mProbe(p, r)
			c32mErrorWritten(p, r)
			c32mStatusLookup(p, r)
			c32mWriteErrorKept(p, r)
		})
}

// errOperandM8 returns the error operand of a return statement (last result), nil for a bare return.
func errOperandM8(rs *ast.ReturnStmt) ast.Expr {
	if len(rs.Results) == 0 {
		return nil
	}
	return rs.Results[len(rs.Results)-1]
}

func c32mProbe(p *core.Prog, r *core.Report) {
	const rule = "probe-verdict"
	pk := p.Pkg(kitioPk8)
	if pk == nil {
		return
	}
	f := r.Need(p, kitioPk8, "LimitedReadCloser.Read")
	fR := core.LookupField(pk.Types, "LimitedReadCloser", "R")
	fExc := core.LookupField(pk.Types, "LimitedReadCloser", "limitExceeded")
	if f == nil || fR == nil || fExc == nil {
		return
	}
	g := f.Graph()
	info := f.Info()
	underRead := core.MethodOnField8(fR, "io.Reader.Read", "io.ReadCloser.Read")
	var pbuf types.Object
	if sig := f.Obj.Type().(*types.Signature); sig.Params().Len() == 1 {
		pbuf = sig.Params().At(0)
	}
	var ioEOF types.Object
	if iop := p.All["io"]; iop != nil && iop.Types != nil {
		ioEOF = iop.Types.Scope().Lookup("EOF")
	}
	stores := func(n *core.Node) bool {
		if !g.Assigning(fExc)(n) {
			return false
		}
		as, ok := n.N.(*ast.AssignStmt)
		return !ok || len(as.Rhs) != 1 || !core.IsConstBool8(info, as.Rhs[0], false)
	}
	probes := 0
	for _, n := range g.Select(g.Calling(underRead)) {
		as, ok := n.N.(*ast.AssignStmt)
		if !ok || len(as.Lhs) != 2 || len(as.Rhs) != 1 {
			continue
		}
		c, isCall := ast.Unparen(as.Rhs[0]).(*ast.CallExpr)
		if !isCall || len(c.Args) != 1 || (pbuf != nil && core.ObjOf(info, c.Args[0]) == pbuf) {
			continue // the data read into the caller's buffer
		}
		pn, perr := core.ObjOf(info, as.Lhs[0]), core.ObjOf(info, as.Lhs[1])
		if pn == nil || perr == nil {
			r.Bad(rule, f.String(), "probe-results-discarded", g.Line(n), "the probe's byte count and error are both kept in variables")
			continue
		}
		probes++
		isPn := core.IsObj(info, pn)
		isPerr := core.IsObj(info, perr)
		gotData := core.EdgeEstablishing(core.NonZeroFact(info, isPn, true, true))
		noData := core.EdgeEstablishing(core.NonZeroFact(info, isPn, false, true))
		// (a) verdict only on data
		reach := g.Reach(core.After(n, nil), nil, gotData)
		bad := ""
		for x := range reach {
			if stores(x) {
				bad = g.Line(x)
			}
		}
		r.Check(bad == "", rule, f.String(), "exceeded-without-data", g.Line(n), "limitExceeded is set only behind a branch establishing that the probe returned at least one byte (a body of exactly the limit is not over it)"+ifs8(bad != "", " — store at "+bad))
		// (b) data always gives the verdict
		reach = g.Reach(core.After(n, nil), stores, noData)
		bad = ""
		for _, x := range core.X1ExitsIn(reach) {
			bad = g.Line(x)
		}
		r.Check(bad == "", rule, f.String(), "data-without-exceeded", g.Line(n), "every path from the probe on which the probe may have returned data sets limitExceeded (otherwise an over-limit body is cut at the limit and accepted)"+ifs8(bad != "", " — exit "+bad))
		// (c) the probe's error
		isEOF := func(e ast.Expr) bool { return ioEOF != nil && selObj8(info, e) == ioEOF }
		benign := func(x ast.Expr, val bool) bool {
			x = ast.Unparen(x)
			if y, nonNilOnTrue, ok := core.NilTest(info, x); ok && isPerr(y) {
				return val != nonNilOnTrue // known nil
			}
			if be, ok := x.(*ast.BinaryExpr); ok && (be.Op == token.EQL || be.Op == token.NEQ) {
				if (isPerr(be.X) && isEOF(be.Y)) || (isPerr(be.Y) && isEOF(be.X)) {
					return (be.Op == token.EQL) == val
				}
			}
			if ce, ok := x.(*ast.CallExpr); ok && call("errors.Is")(info, ce) && len(ce.Args) == 2 && isPerr(ce.Args[0]) && isEOF(ce.Args[1]) {
				return val
			}
			return false
		}
		benignEdge := core.OrEdge8(core.ImpliesEdge8(benign), gotData,
			core.TagEdge8(func(tag, ce ast.Expr) bool { return isPerr(tag) && (core.IsNilIdent(info, ce) || isEOF(ce)) }))
		retPerr := func(x *core.Node) bool {
			rs, ok := x.N.(*ast.ReturnStmt)
			if !ok {
				return false
			}
			op := errOperandM8(rs)
			return op != nil && isPerr(core.ResolveLocal(info, f.Decl.Body, op))
		}
		reach = g.Reach(core.After(n, nil), retPerr, benignEdge)
		bad = ""
		for _, x := range core.X1ExitsIn(reach) {
			bad = g.Line(x)
		}
		r.Check(bad == "", rule, f.String(), "probe-error-dropped", g.Line(n), "a probe that failed with an error other than io.EOF (and returned no data) makes Read return that error, not a clean end of body"+ifs8(bad != "", " — exit "+bad+" reachable with the error still possible"))
	}
	r.Check(probes >= 1, rule, f.String(), "probe:absent", f.Pos(), fmt.Sprintf("%d over-limit probe read(s) of l.R found", probes))
}

func c32mErrorWritten(p *core.Prog, r *core.Report) {
	const rule = "error-written"
	if p.Pkg(kithttp8) == nil {
		return
	}
	f := r.Need(p, kithttp8, "ErrorHandler.HandleHTTPError")
	if f == nil {
		return
	}
	g := f.Graph()
	info := f.Info()
	sig := f.Obj.Type().(*types.Signature)
	var errP types.Object
	for i := 0; i < sig.Params().Len(); i++ {
		if core.IsErrorType(sig.Params().At(i).Type()) {
			errP = sig.Params().At(i)
		}
	}
	write := call("kit/transport/http.WriteErrorResponse")
	wn := g.Select(g.Calling(write))
	if !r.Check(errP != nil && len(wn) >= 1, rule, f.String(), "WriteErrorResponse:absent", f.Pos(), "the handler has an error parameter and writes through WriteErrorResponse") {
		return
	}
	isErr := core.IsObj(info, errP)
	reach := g.ReachFromEntry(g.Calling(write), g.NilEdge(isErr, true))
	bad := ""
	for _, x := range core.X1ExitsIn(reach) {
		bad = g.Line(x)
	}
	r.Check(bad == "", rule, f.String(), "error-not-written", f.Pos(), "every path on which err is not known to be nil reaches WriteErrorResponse (otherwise the request is answered with an empty 200)"+ifs8(bad != "", " — exit "+bad))

	// the message
	asAtom := func(x ast.Expr, val, want bool) bool {
		c, ok := ast.Unparen(core.ResolveLocal(info, f.Decl.Body, x)).(*ast.CallExpr)
		return ok && val == want && call("errors.As")(info, c) && len(c.Args) == 2 && isErr(c.Args[0])
	}
	asFalse := core.AtomEdge(func(x ast.Expr, v bool) bool { return asAtom(x, v, false) })
	for _, n := range wn {
		for _, c := range core.CallsIn(info, n.N, write, core.WalkOpts{}) {
			if len(c.Args) != 4 {
				continue
			}
			msg := core.ObjOf(info, c.Args[3])
			if msg == nil {
				continue // not a variable: nothing is substituted
			}
			isErrText := func(e ast.Expr) bool {
				ce, ok := ast.Unparen(e).(*ast.CallExpr)
				if !ok || len(ce.Args) != 0 {
					return false
				}
				se, ok := ast.Unparen(ce.Fun).(*ast.SelectorExpr)
				return ok && se.Sel.Name == "Error" && isErr(se.X) && core.IsErrorType(info.TypeOf(se.X))
			}
			var generic, own []*core.Node
			for _, a := range core.AssignsTo8(info, f.Decl.Body, msg) {
				if a.Rhs == nil {
					continue
				}
				nd := g.NodeOf(a.Stmt)
				if nd == nil {
					continue
				}
				if tv := info.Types[a.Rhs]; tv.Value != nil && tv.Value.Kind() == constant.String {
					generic = append(generic, nd)
				} else if a.Index == -1 && isErrText(a.Rhs) {
					own = append(own, nd)
				}
			}
			if len(generic) == 0 {
				continue
			}
			byp := g.Bypassing8(generic, asFalse)
			r.Check(len(byp) == 0, rule, f.String(), "generic-text-for-platform-error", g.Line(generic[0]),
				"a fixed replacement text is assigned only behind a branch on which errors.As found no platform error (a platform error's text names the bad lines / the dropped count)")
			isOwn := func(x *core.Node) bool {
				for _, o := range own {
					if o == x {
						return true
					}
				}
				return false
			}
			// W is reached either after `msg = err.Error()` or through the no-platform-error branch
			lost := g.ReachFromEntry(isOwn, asFalse)[n]
			r.Check(!lost && g.HasEdge8(asFalse), rule, f.String(), "platform-error-text-lost", g.Line(n),
				"where errors.As found a platform error the written message is assigned from err.Error() before WriteErrorResponse")
		}
	}
}

func c32mStatusLookup(p *core.Prog, r *core.Report) {
	const rule = "status-lookup"
	if p.Pkg(kithttp8) == nil {
		return
	}
	f := r.Need(p, kithttp8, "ErrorCodeToStatusCode")
	if f == nil {
		return
	}
	g := f.Graph()
	info := f.Info()
	sig := f.Obj.Type().(*types.Signature)
	var codeP types.Object
	for i := 0; i < sig.Params().Len(); i++ {
		if b, ok := sig.Params().At(i).Type().Underlying().(*types.Basic); ok && b.Kind() == types.String {
			codeP = sig.Params().At(i)
		}
	}
	// value, ok := <package-level map>[code]
	var lookup *core.Node
	var val, okV types.Object
	for _, n := range g.Nodes {
		as, isAs := n.N.(*ast.AssignStmt)
		if !isAs || len(as.Lhs) != 2 || len(as.Rhs) != 1 {
			continue
		}
		ix, isIx := ast.Unparen(as.Rhs[0]).(*ast.IndexExpr)
		if !isIx || codeP == nil || core.ObjOf(info, ix.Index) != codeP {
			continue
		}
		if _, isMap := info.TypeOf(ix.X).Underlying().(*types.Map); !isMap {
			continue
		}
		if v, isVar := core.ObjOf(info, ix.X).(*types.Var); !isVar || v.Pkg() == nil || v.Parent() != v.Pkg().Scope() {
			continue
		}
		lookup, val, okV = n, core.ObjOf(info, as.Lhs[0]), core.ObjOf(info, as.Lhs[1])
	}
	if !r.Check(lookup != nil && val != nil && okV != nil, rule, f.String(), "lookup:absent", f.Pos(), "the status is looked up with `status, ok := table[code]` in a package-level map") {
		return
	}
	// ctx.Err() == context.DeadlineExceeded / context.Canceled
	var done []types.Object
	if cp := p.All["context"]; cp != nil && cp.Types != nil {
		done = append(done, cp.Types.Scope().Lookup("DeadlineExceeded"), cp.Types.Scope().Lookup("Canceled"))
	}
	isDone := func(e ast.Expr) bool {
		o := selObj8(info, e)
		for _, d := range done {
			if d != nil && o == d {
				return true
			}
		}
		return false
	}
	isCtxErr := func(e ast.Expr) bool {
		c, ok := ast.Unparen(core.ResolveLocal(info, f.Decl.Body, e)).(*ast.CallExpr)
		return ok && call("context.Context.Err")(info, c)
	}
	ctxDone := core.OrEdge8(
		core.CmpFactEdge8(func(c core.Cmp8) bool { return c.Op == token.EQL && isCtxErr(c.L) && isDone(c.R) }),
		core.FactEdge8(func(x ast.Expr, v bool) bool {
			ce, ok := x.(*ast.CallExpr)
			return ok && v && call("errors.Is")(info, ce) && len(ce.Args) == 2 && isCtxErr(ce.Args[0]) && isDone(ce.Args[1])
		}),
		core.TagEdge8(func(tag, ce ast.Expr) bool { return isCtxErr(tag) && isDone(ce) }))
	isLookup := func(n *core.Node) bool { return n == lookup }
	reach := g.ReachFromEntry(isLookup, ctxDone)
	bad := ""
	for _, x := range core.X1ExitsIn(reach) {
		bad = g.Line(x)
	}
	r.Check(bad == "", rule, f.String(), "lookup-skipped", f.Pos(), "every path reaches the table lookup unless a branch established ctx.Err() == DeadlineExceeded/Canceled (otherwise 400/413 are replaced by a timeout status for live requests)"+ifs8(bad != "", " — exit "+bad))
	found := core.EdgeEstablishing(core.BoolVarFact(info, okV, true))
	retVal := func(x *core.Node) bool {
		rs, ok := x.N.(*ast.ReturnStmt)
		return ok && len(rs.Results) == 1 && core.ObjOf(info, rs.Results[0]) == val
	}
	rv := g.Select(retVal)
	if r.Check(len(rv) >= 1 && g.HasEdge8(found), rule, f.String(), "lookup-result:absent", g.Line(lookup), "the looked-up status is returned behind a test of the lookup's ok result") {
		r.Check(len(g.Bypassing8(rv, found)) == 0, rule, f.String(), "status-without-hit", g.Line(rv[0]), "the looked-up status is returned only where the lookup succeeded")
		lost := ""
		notFound := core.EdgeEstablishing(core.BoolVarFact(info, okV, false))
		for _, x := range core.X1ExitsIn(g.Reach(core.After(lookup, nil), retVal, notFound)) {
			lost = g.Line(x)
		}
		r.Check(lost == "", rule, f.String(), "hit-not-returned", g.Line(lookup), "from the lookup every path returns the looked-up status unless a branch established that the lookup missed"+ifs8(lost != "", " — exit "+lost))
	}
}

func c32mWriteErrorKept(p *core.Prog, r *core.Report) {
	const rule = "write-error-kept"
	if p.Pkg(storPk8) == nil {
		return
	}
	f := r.Need(p, storPk8, "LoggingPointsWriter.WritePoints")
	if f == nil {
		return
	}
	g := f.Graph()
	info := f.Info()
	under := call("storage.PointsWriter.WritePoints")
	pts := f.Obj.Type().(*types.Signature).Params().At(3)
	// the write of the caller's points
	var wn *core.Node
	var werr types.Object
	for _, n := range g.Select(g.Calling(under)) {
		for _, c := range core.CallsIn(info, n.N, under, core.WalkOpts{}) {
			if len(c.Args) == 4 && core.ObjOf(info, c.Args[3]) == pts {
				if as, ok := n.N.(*ast.AssignStmt); ok && len(as.Lhs) == 1 {
					wn, werr = n, core.ObjOf(info, as.Lhs[0])
				}
			}
		}
	}
	if !r.Check(wn != nil && werr != nil, rule, f.String(), "write:absent", f.Pos(), "the caller's points are written through the underlying writer and the error is kept in a variable") {
		return
	}
	if len(core.AssignsTo8(info, f.Decl.Body, werr)) != 1 {
		r.Bad(rule, f.String(), "write-error-reassigned", g.Line(wn), "the variable holding the write error is assigned more than once")
		return
	}
	isW := core.IsObj(info, werr)
	failed := g.NilEdge(isW, false)
	// counts that report "no log bucket": integer results of the bucket lookup, or len(list)
	finder := call("*.FindBuckets")
	counts := map[types.Object]bool{}
	lists := map[types.Object]bool{}
	ast.Inspect(f.Decl.Body, func(n ast.Node) bool {
		as, ok := n.(*ast.AssignStmt)
		if !ok || len(as.Rhs) != 1 {
			return true
		}
		c, isCall := ast.Unparen(as.Rhs[0]).(*ast.CallExpr)
		if !isCall || !finder(info, c) {
			return true
		}
		for _, l := range as.Lhs {
			o := core.ObjOf(info, l)
			if o == nil {
				continue
			}
			switch t := o.Type().Underlying().(type) {
			case *types.Basic:
				if t.Info()&types.IsInteger != 0 {
					counts[o] = true
				}
			case *types.Slice:
				lists[o] = true
			}
		}
		return true
	})
	isCount := func(e ast.Expr) bool {
		e = ast.Unparen(e)
		if o := core.ObjOf(info, e); o != nil && counts[o] {
			return true
		}
		if c, ok := e.(*ast.CallExpr); ok && core.Builtin("len")(info, c) && len(c.Args) == 1 {
			if o := core.ObjOf(info, c.Args[0]); o != nil && lists[o] {
				return true
			}
		}
		return false
	}
	_ = core.OrEdge8(
		g.NilFactEdge8(func(x ast.Expr) bool {
			return core.IsErrorType(info.TypeOf(x)) && !isW(x)
		}, false),
		core.EdgeEstablishing(core.NonZeroFact(info, isCount, false, true)))
	retW := func(x *core.Node) bool {
		rs, ok := x.N.(*ast.ReturnStmt)
		return ok && len(rs.Results) == 1 && isW(rs.Results[0])
	}
	n := 0
	bad := ""
	for _, nd := range g.Nodes {
		for _, e := range nd.Succ {
			if !failed(e) {
				continue
			}
			n++
			for _, x := range core.X1ExitsIn(g.Reach([]*core.Node{e.To}, retW, nil)) {
				bad = g.Line(x)
			}
		}
	}
	if r.Check(n >= 1, rule, f.String(), "failure-branch:absent", g.Line(wn), "a branch tests the write error") {
		r.Check(bad == "", rule, f.String(), "write-error-replaced", g.Line(wn),
			"after a failed write every path returns the write error itself (a PartialWriteError carries the dropped count, and the handler recognises it by type), whatever happens to the log entry"+ifs8(bad != "", " — exit "+bad+" returns something else"))
	}
}
