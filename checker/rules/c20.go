package rules

import (
	"fmt"
	"go/ast"
	"go/token"
	"go/types"
	"sort"
	"strings"

	"verif/checker/core"
)

const (
	readsPk10     = "storage/reads"
	datatypesPk10 = "storage/reads/datatypes"
	genCursors10  = "array_cursor.gen.go"
)

// c20Subst: token-level differences between an instantiation and its Float
// sibling in storage/reads/array_cursor.gen.go that are legitimate (each read).
func c20Subst() []*core.SibSubst10 {
	return []*core.SibSubst10{
		{Member: "integerWindowMaxArrayCursor.Next", Got: "math . MinInt64", Want: "- math . MaxFloat64",
			Reason: "identity element of max for int64 (template: per-type initial accumulator)"},
		{Member: "unsignedWindowMaxArrayCursor.Next", Got: "0", Want: "- math . MaxFloat64",
			Reason: "identity element of max for uint64"},
		{Member: "newIntegerWindowMeanArrayCursor", Got: "NewFloatArrayLen", Want: "NewFloatArrayLen",
			Reason: "mean yields float64 for every input type: the result array is a FloatArray"},
		{Member: "newUnsignedWindowMeanArrayCursor", Got: "NewFloatArrayLen", Want: "NewFloatArrayLen",
			Reason: "mean yields float64 for every input type: the result array is a FloatArray"},
		{Member: "integerWindowMeanArrayCursor.Next", Got: "FloatArray", Want: "FloatArray",
			Reason: "mean yields float64 for every input type: result type *cursors.FloatArray"},
		{Member: "unsignedWindowMeanArrayCursor.Next", Got: "FloatArray", Want: "FloatArray",
			Reason: "mean yields float64 for every input type: result type *cursors.FloatArray"},
		{Member: "integerWindowMeanArrayCursor.Next", Got: "float64 ( sum )", Want: "sum",
			Reason: "integer sum is converted before the floating-point division"},
		{Member: "unsignedWindowMeanArrayCursor.Next", Got: "float64 ( sum )", Want: "sum",
			Reason: "unsigned sum is converted before the floating-point division"},
	}
}

// c20KindOf: the aggregate each request constant stands for (from the property
// statement); AggregateTypeNone means "no aggregate" and never selects a cursor.
var c20KindOf = map[string]string{
	"Aggregate_AggregateTypeCount": "count",
	"Aggregate_AggregateTypeSum":   "sum",
	"Aggregate_AggregateTypeMin":   "min",
	"Aggregate_AggregateTypeMax":   "max",
	"Aggregate_AggregateTypeMean":  "mean",
	"Aggregate_AggregateTypeFirst": "first",
	"Aggregate_AggregateTypeLast":  "last",
}

// value types each aggregate is defined for (String/Boolean have no sum/min/max/mean).
var c20AllTypes = []string{"cursors.BooleanArrayCursor", "cursors.FloatArrayCursor", "cursors.IntegerArrayCursor", "cursors.StringArrayCursor", "cursors.UnsignedArrayCursor"}
var c20NumTypes = []string{"cursors.FloatArrayCursor", "cursors.IntegerArrayCursor", "cursors.UnsignedArrayCursor"}

func c20TypesOf(kind string) []string {
	switch kind {
	case "sum", "min", "max", "mean":
		return c20NumTypes
	}
	return c20AllTypes
}

func init() {
	register(&Prop{
		ID:        "C20",
		Patterns:  []string{"./storage/reads"},
		Level:     "other",
		Technique: "static analysis: sibling uniformity of the generated cursors (token normal form with named token-level exceptions), switch/type-switch coverage tables, structural classification of each cursor's accumulation, CFG path rules for window close / carry-over",
		Explanation: "The windowed aggregates are generated per value type from one template (storage/reads/array_cursor.gen.go). Decided: " +
			"(1) sibling-uniformity — every Window{Count,Sum,Min,Max,Mean,First,Last} and Limit cursor function (constructor, Stats, Next incl. the MaxPointsPerBlock carry-over through c.tmp) is token-identical to its Float sibling up to the value-type tokens; the only differences allowed are 8 named ones (identity element of max for int64/uint64, mean producing a FloatArray and converting its integer sum). " +
			"(2) aggregate-type-coverage — newWindowAggregateArrayCursor has a case for every datatypes.Aggregate_AggregateType constant except None, each returning its own dispatcher applied to (cursor, window); newAggregateArrayCursor (whole-range form) sends First/Last to the limit cursor and every other constant to newWindowAggregateArrayCursor (7-row table by reachability under agg.Type = c). " +
			"(3) dispatcher-arms — each newWindow<Agg>ArrayCursor / newLimitArrayCursor type switch has exactly the arms of the value types the aggregate is defined for (all five for count/first/last/limit, the three numeric ones for sum/min/max/mean), every arm constructs from its own bound cursor and the window, all arms of one dispatcher instantiate one template and different aggregates use different templates. " +
			"(4) aggregate-kind — for every (constant, value type) the cursor's Next is classified by the shape of its accumulation, independent of names: count = accumulator only incremented; sum = accumulator += a.Values[i]; min/max = accumulator replaced by a.Values[i] under `a.Values[i] < acc` / `> acc` (or first point of the window) with the point's own timestamp; mean = (sum of values)/(count); first = a value is stored only for a timestamp >= windowEnd; last = a value is stored for every point while the output index advances only for a timestamp >= windowEnd; count/sum/mean emit the window stop time (GetLatestBounds(t).Stop()). The class must equal the constant's aggregate, so an edit made consistently in the template (invisible to rule 1) is still seen. " +
			"(5) window-accumulate (count/sum/min/max/mean, 17 cursors) — a window is emitted only behind `ts >= windowEnd` and only when it has points; on that path the point is not consumed, the scan index is not advanced, and before the point is looked at again windowEnd is recomputed from GetLatestBounds(ts).Stop(), every accumulator is reset and the has-points flag cleared; every consumed point sets the flag; the final window is emitted only when it has points. " +
			"(6) carry-over — when the output block is full (only behind `pos >= MaxPointsPerBlock`, `cur == MaxPointsPerBlock`, `Len() == MaxPointsPerBlock`) the unread tail a.Timestamps[k:] / a.Values[k:] is saved in c.tmp with identical bounds on both slices, k being the scan index when the current point has not been consumed and index+1 when it has (first); nothing more is consumed or emitted afterwards in that call; the next call reads c.tmp first when it is non-empty; c.tmp is cleared before the input cursor is asked for the next array. " +
			"(7) ts-values-lockstep — in every Window/Limit cursor method, reslicing and element stores on Timestamps and on Values come in pairs with the same base and index.",
		NotCovered: "the computed values and window bounds themselves (interval.Window arithmetic, overflow, NaN ordering), the choice of ascending/descending input for last, the flux-side table building; an edit applied consistently to the template is invisible to rule 1 (rules 4-7 cover the accumulation and carry-over shape only). AggregateTypeNone reaching newWindowAggregateArrayCursor panics (validated by the callers).",
		Assumptions: []string{"the Float instantiation is the comparison reference of each sibling group", "classification fails (violation) on an accumulation shape it does not recognise"},
		Run:         runC20,
	})
}

func runC20(p *core.Prog, r *core.Report, tier string) {
	keep := func(k string) bool { return strings.Contains(k, "Window") || strings.Contains(k, "LimitArrayCursor") }
	core.RuleSiblings10(r, p, readsPk10, genCursors10, "sibling-uniformity", keep, c20Subst(), 24, 96)
	c20Dispatch(p, r)
	c20Lockstep(p, r, keep, 32)
}

// ---------------------------------------------------------------- dispatch tables

func c20Dispatch(p *core.Prog, r *core.Report) {
	const rule = "aggregate-type-coverage"
	dt := p.Pkg(datatypesPk10)
	if dt == nil {
		r.Bad("anchor", datatypesPk10, "unresolved", "-", "package not loaded")
		return
	}
	consts := core.ConstsOfType(dt.Types, "Aggregate_AggregateType")
	r.Check(len(consts) >= 8, "anchor", "datatypes.Aggregate_AggregateType", "constants", "-", fmt.Sprintf("%d constants found (>= 8 confirmed by reading)", len(consts)))
	keys, err := core.SiblingKeys10(p, readsPk10, genCursors10)
	if err != nil {
		r.Bad("anchor", readsPk10+"/"+genCursors10, "unresolved", "-", err.Error())
		return
	}
	top := r.Need(p, readsPk10, "newWindowAggregateArrayCursor")
	if top == nil {
		return
	}
	info := top.Info()
	windowP, cursorP := top.Param(2), top.Param(3)
	disp := map[string]*core.Func{} // constant name -> dispatcher
	usedBy := map[*core.Func]string{}
	for _, sw := range core.Switches(info, top.Decl.Body, "Aggregate_AggregateType") {
		for _, cl := range sw.Stmt.Body.List {
			cc := cl.(*ast.CaseClause)
			for _, e := range cc.List {
				k := core.ConstOf(info, e)
				if k == nil {
					continue
				}
				rets := core.ReturnsOf10(cc)
				var d *core.Func
				var dc *ast.CallExpr
				if len(rets) == 1 && len(rets[0].Results) >= 1 {
					dc, _ = ast.Unparen(rets[0].Results[0]).(*ast.CallExpr)
					if dc != nil {
						d = p.FuncOf(core.Callee(info, dc))
					}
				}
				good := d != nil && len(dc.Args) == 2 && core.ObjOf(info, dc.Args[0]) == cursorP && core.ObjOf(info, dc.Args[1]) == windowP
				if r.Check(good, rule, top.String(), "case:"+k.Name(), p.Pos(cc.Pos()), "the case returns one dispatcher applied to (cursor, window)") {
					if prev, dup := usedBy[d]; dup {
						r.Bad(rule, top.String(), "case:"+k.Name()+":distinct", p.Pos(cc.Pos()), "same dispatcher as "+prev)
					}
					usedBy[d] = k.Name()
					disp[k.Name()] = d
				}
			}
		}
	}
	var names []string
	for n := range consts {
		names = append(names, n)
	}
	sort.Strings(names)
	for _, n := range names {
		if n == "Aggregate_AggregateTypeNone" {
			continue // exception: "no aggregate"; such a request is never turned into a window aggregate cursor
		}
		if _, known := c20KindOf[n]; !known {
			r.Bad(rule, top.String(), "constant:"+n+":unknown", top.Pos(), "an aggregate type the rule table does not know: extend c20KindOf after reading its cursor")
			continue
		}
		if disp[n] == nil {
			r.Bad(rule, top.String(), "constant:"+n+":uncovered", top.Pos(), "no case for an aggregate type the request layer admits (falls into the panic arm)")
		}
	}

	// whole-range form
	if f := r.Need(p, readsPk10, "newAggregateArrayCursor"); f != nil {
		fi, g := f.Info(), f.Graph()
		typeF := core.LookupField(dt.Types, "Aggregate", "Type")
		isType := func(e ast.Expr) bool {
			if typeF != nil && core.FieldOf(fi, e) == typeF {
				return true
			}
			c, ok := ast.Unparen(e).(*ast.CallExpr)
			return ok && core.FName(core.Callee(fi, c)) == datatypesPk10+".Aggregate.GetType"
		}
		obs := call(readsPk10+".newLimitArrayCursor", readsPk10+".newWindowAggregateArrayCursor")
		for _, n := range names {
			kind, ok := c20KindOf[n]
			if !ok {
				continue
			}
			reach := g.ReachUnder10([]*core.Node{g.Entry}, nil, core.ConstEqLeaf10(fi, isType, consts[n].Val()))
			got, calls := g.CallsReached10(reach, obs)
			good := len(got) >= 1
			for _, x := range got {
				// the limit cursor (first point of the range) is only right for the selectors first/last;
				// for them going through the window dispatcher with a zero window is equivalent
				if x == readsPk10+".newLimitArrayCursor" && kind != "first" && kind != "last" {
					good = false
				}
			}
			for _, cl := range calls {
				if core.FName(core.Callee(fi, cl)) != readsPk10+".newWindowAggregateArrayCursor" {
					continue
				}
				// whole range = the zero window, same aggregate, same cursor
				zero := false
				if len(cl.Args) == 4 {
					if lit, ok := ast.Unparen(cl.Args[2]).(*ast.CompositeLit); ok && len(lit.Elts) == 0 && core.NamedName10(fi.TypeOf(lit)) == "interval.Window" {
						zero = true
					}
				}
				good = good && zero && core.ObjOf(fi, cl.Args[1]) == f.Param(1) && core.ObjOf(fi, cl.Args[3]) == f.Param(2)
			}
			r.Check(good, "whole-range-dispatch", f.String(), "type="+n, f.Pos(),
				fmt.Sprintf("with agg.Type == %s the whole-range form uses the window dispatcher with the zero window (or, for first/last only, the limit cursor); reached %v", n, got))
		}
	}

	// dispatchers
	tmplOf := map[string]string{}
	checkDispatcher := func(d *core.Func, kind, label string) {
		const rule = "dispatcher-arms"
		di := d.Info()
		curP := d.Param(0)
		var winP *types.Var
		if sig, _ := d.Obj.Type().(*types.Signature); sig != nil && sig.Params().Len() >= 2 {
			winP = d.Param(1)
		}
		var sw *core.TypeSwitch10
		for _, s := range core.TypeSwitches10(di, d.Decl.Body) {
			if core.ObjOf(di, s.Operand) == curP {
				sw = s
			}
		}
		if !r.Check(sw != nil, rule, d.String(), "type-switch:absent", d.Pos(), "dispatches on the dynamic type of the input cursor") {
			return
		}
		var arms []string
		tmpl := map[string]bool{}
		for _, a := range sw.Arms {
			if len(a.Types) != 1 {
				r.Bad(rule, d.String(), "arm:multi-type", p.Pos(a.Clause.Pos()), "an arm listing several cursor types cannot construct a typed cursor")
				continue
			}
			tn := core.NamedName10(a.Types[0])
			arms = append(arms, tn)
			rets := core.ReturnsOf10(a.Clause)
			var cc *ast.CallExpr
			if len(rets) == 1 && len(rets[0].Results) >= 1 {
				cc, _ = ast.Unparen(rets[0].Results[0]).(*ast.CallExpr)
			}
			good := cc != nil && len(cc.Args) >= 1 && core.ObjOf(di, cc.Args[0]) == a.Bound && a.Bound != nil
			if good && winP != nil {
				good = len(cc.Args) == 2 && core.ObjOf(di, cc.Args[1]) == winP
			}
			var next *core.Func
			if good {
				if nt := core.NamedOf(di.TypeOf(cc)); nt != nil {
					next = p.Func(readsPk10, nt.Obj().Name()+".Next")
				}
			}
			if !r.Check(good && next != nil, rule, d.String(), "arm:"+tn, p.Pos(a.Clause.Pos()), "the arm returns a cursor constructed from its own typed input (and the window)") {
				continue
			}
			tmpl[keys[next.Name]] = true
			if kind != "limit" {
				c20CheckKind(p, r, next, kind, label, tn)
			}
		}
		if kind == "first" || kind == "last" {
			// a zero window (whole range) must not reach the window cursors: GetLatestBounds needs every != 0
			isZero := func(v bool) core.Leaf10 {
				return core.CallLeaf10(di, call("*flux/interval.Window.IsZero"), func(cl *ast.CallExpr) bool { return core.ObjOf(di, core.Recv(cl)) == winP }, v)
			}
			dg := d.Graph()
			ctor := call(readsPk10 + ".new*ArrayCursor")
			z, _ := dg.CallsReached10(dg.ReachUnder10([]*core.Node{dg.Entry}, nil, isZero(true)), ctor)
			nz, _ := dg.CallsReached10(dg.ReachUnder10([]*core.Node{dg.Entry}, nil, isZero(false)), ctor)
			hasLimit := false
			for _, x := range nz {
				if x == readsPk10+".newLimitArrayCursor" {
					hasLimit = true
				}
			}
			r.Check(sameSet10(z, []string{readsPk10 + ".newLimitArrayCursor"}) && !hasLimit && len(nz) == len(sw.Arms), rule, d.String(), "zero-window", d.Pos(),
				fmt.Sprintf("a zero window selects the limit cursor only (%v); a real window selects the %d window cursors and never the limit cursor", z, len(nz)))
		}
		want := c20TypesOf(kind)
		r.Check(sameSet10(arms, want), rule, d.String(), "arms", d.Pos(), fmt.Sprintf("%s is defined for %d value types; arms found: %v", kind, len(want), arms))
		var ts []string
		for k := range tmpl {
			ts = append(ts, k)
		}
		sort.Strings(ts)
		if r.Check(len(ts) == 1 && ts[0] != "", rule, d.String(), "one-template", d.Pos(), fmt.Sprintf("all arms instantiate one template (%v)", ts)) {
			if prev, dup := tmplOf[ts[0]]; dup {
				r.Bad(rule, d.String(), "template-distinct", d.Pos(), "same cursor template as "+prev)
			}
			tmplOf[ts[0]] = d.String()
		}
	}
	for _, n := range names {
		if d := disp[n]; d != nil {
			r.Saw(d)
			checkDispatcher(d, c20KindOf[n], n)
		}
	}
	if d := r.Need(p, readsPk10, "newLimitArrayCursor"); d != nil {
		checkDispatcher(d, "limit", "limit")
	}
}

// ---------------------------------------------------------------- cursor shapes

type c20store struct {
	stmt  *ast.AssignStmt
	idx   ast.Expr // nil for append form
	val   ast.Expr
	tsVal ast.Expr // value stored into Timestamps at the same index in the same block (nil if none)
}

type c20cur struct {
	p      *core.Prog
	f      *core.Func
	info   *types.Info
	g      *core.Graph
	recv   types.Object
	typ    string
	stores []c20store
}

func (c *c20cur) recvField(e ast.Expr, name string) bool {
	se, ok := ast.Unparen(e).(*ast.SelectorExpr)
	if !ok || se.Sel.Name != name || core.ObjOf(c.info, se.X) != c.recv {
		return false
	}
	return core.FieldOf(c.info, se) != nil
}

// arrField: e is X.Timestamps / X.Values of a tsdb/cursors array; returns X.
func (c *c20cur) arrField(e ast.Expr, which string) ast.Expr {
	se, ok := ast.Unparen(e).(*ast.SelectorExpr)
	if !ok {
		return nil
	}
	fv := core.FieldOf(c.info, se)
	if fv == nil || fv.Name() != which || fv.Pkg() == nil || !strings.HasSuffix(fv.Pkg().Path(), "tsdb/cursors") {
		return nil
	}
	return ast.Unparen(se.X)
}

// inputElem: e is a.<which>[i] for a local array variable a; returns a's object and i.
func (c *c20cur) inputElem(e ast.Expr, which string) (types.Object, ast.Expr) {
	ix, ok := ast.Unparen(e).(*ast.IndexExpr)
	if !ok {
		return nil, nil
	}
	base := c.arrField(ix.X, which)
	if base == nil {
		return nil, nil
	}
	o := core.ObjOf(c.info, base)
	if v, ok := o.(*types.Var); !ok || v.IsField() || o == c.recv {
		return nil, nil
	}
	return o, ix.Index
}

func (c *c20cur) isRes(e ast.Expr, which string) bool {
	b := c.arrField(e, which)
	return b != nil && c.recvField(b, "res")
}

func (c *c20cur) isTmp(e ast.Expr, which string) bool {
	b := c.arrField(e, which)
	return b != nil && c.recvField(b, "tmp")
}

func newC20cur(p *core.Prog, f *core.Func) *c20cur {
	c := &c20cur{p: p, f: f, info: f.Info(), g: f.Graph()}
	if f.Decl.Recv != nil && len(f.Decl.Recv.List) == 1 && len(f.Decl.Recv.List[0].Names) == 1 {
		c.recv = c.info.Defs[f.Decl.Recv.List[0].Names[0]]
	}
	c.typ = strings.SplitN(f.Name, ".", 2)[0]
	// value stores into c.res.Values and their timestamp twins
	tsStores := map[*ast.BlockStmt][]*ast.AssignStmt{}
	var blocks []*ast.BlockStmt
	ast.Inspect(f.Decl.Body, func(n ast.Node) bool {
		if b, ok := n.(*ast.BlockStmt); ok {
			blocks = append(blocks, b)
		}
		return true
	})
	blockOf := func(s ast.Stmt) *ast.BlockStmt {
		var best *ast.BlockStmt
		for _, b := range blocks {
			for _, x := range b.List {
				if x == s {
					best = b
				}
			}
		}
		return best
	}
	ast.Inspect(f.Decl.Body, func(n ast.Node) bool {
		as, ok := n.(*ast.AssignStmt)
		if !ok || len(as.Lhs) != 1 || len(as.Rhs) != 1 {
			return true
		}
		if ix, ok := ast.Unparen(as.Lhs[0]).(*ast.IndexExpr); ok && c.isRes(ix.X, "Timestamps") {
			b := blockOf(as)
			tsStores[b] = append(tsStores[b], as)
		}
		if c.isRes(as.Lhs[0], "Timestamps") {
			if ap, ok := ast.Unparen(as.Rhs[0]).(*ast.CallExpr); ok && core.Builtin("append")(c.info, ap) && len(ap.Args) == 2 {
				b := blockOf(as)
				tsStores[b] = append(tsStores[b], as)
			}
		}
		return true
	})
	ast.Inspect(f.Decl.Body, func(n ast.Node) bool {
		as, ok := n.(*ast.AssignStmt)
		if !ok || len(as.Lhs) != 1 || len(as.Rhs) != 1 || as.Tok != token.ASSIGN {
			return true
		}
		var st *c20store
		if ix, ok := ast.Unparen(as.Lhs[0]).(*ast.IndexExpr); ok && c.isRes(ix.X, "Values") {
			st = &c20store{stmt: as, idx: ix.Index, val: as.Rhs[0]}
		} else if c.isRes(as.Lhs[0], "Values") {
			if ap, ok := ast.Unparen(as.Rhs[0]).(*ast.CallExpr); ok && core.Builtin("append")(c.info, ap) && len(ap.Args) == 2 && c.isRes(ap.Args[0], "Values") {
				st = &c20store{stmt: as, val: ap.Args[1]}
			}
		}
		if st == nil {
			return true
		}
		for _, ts := range tsStores[blockOf(as)] {
			if ix, ok := ast.Unparen(ts.Lhs[0]).(*ast.IndexExpr); ok {
				if st.idx != nil && core.SameExpr(c.info, ix.Index, st.idx) {
					st.tsVal = ts.Rhs[0]
				}
			} else if st.idx == nil {
				st.tsVal = ast.Unparen(ts.Rhs[0]).(*ast.CallExpr).Args[1]
			}
		}
		c.stores = append(c.stores, *st)
		return true
	})
	return c
}

// accKind classifies how a local accumulator is updated with input points:
// "inc" (only ++), "add" (only += a.Values[i]), "take" (only = a.<which>[i]); the
// updating statements are returned. Resets to constants are ignored.
func (c *c20cur) accKind(obj types.Object, which string) (kind string, updates []ast.Node, idx ast.Expr) {
	kinds := map[string]bool{}
	for _, d := range core.DefsOf(c.info, c.f.Decl.Body, obj) {
		switch s := d.Stmt.(type) {
		case *ast.IncDecStmt:
			if s.Tok == token.INC {
				kinds["inc"] = true
				updates = append(updates, s)
			} else {
				kinds["other"] = true
			}
		case *ast.AssignStmt:
			switch s.Tok {
			case token.ADD_ASSIGN:
				if _, i := c.inputElem(s.Rhs[0], which); i != nil && len(s.Rhs) == 1 {
					kinds["add"] = true
					updates = append(updates, s)
					idx = i
				} else {
					kinds["other"] = true
				}
			case token.ASSIGN, token.DEFINE:
				switch {
				case d.Rhs == nil:
					kinds["other"] = true
				case core.ConstVal(c.info, d.Rhs) != nil:
					// reset
				default:
					if _, i := c.inputElem(d.Rhs, which); i != nil {
						kinds["take"] = true
						updates = append(updates, s)
						idx = i
					} else if be, ok := d.Rhs.(*ast.BinaryExpr); ok && be.Op == token.ADD {
						_, i1 := c.inputElem(be.X, which)
						_, i2 := c.inputElem(be.Y, which)
						switch {
						case core.ObjOf(c.info, be.X) == obj && i2 != nil:
							kinds["add"], idx = true, i2
							updates = append(updates, s)
						case core.ObjOf(c.info, be.Y) == obj && i1 != nil:
							kinds["add"], idx = true, i1
							updates = append(updates, s)
						default:
							kinds["other"] = true
						}
					} else {
						kinds["other"] = true
					}
				}
			default:
				kinds["other"] = true
			}
		case *ast.ValueSpec:
			if d.Rhs != nil && core.ConstVal(c.info, d.Rhs) == nil {
				kinds["other"] = true
			}
		default:
			kinds["other"] = true
		}
	}
	if len(kinds) != 1 {
		var ks []string
		for k := range kinds {
			ks = append(ks, k)
		}
		sort.Strings(ks)
		return "mixed:" + strings.Join(ks, "+"), updates, idx
	}
	for k := range kinds {
		kind = k
	}
	return
}

func disjuncts10(e ast.Expr) []ast.Expr {
	e = ast.Unparen(e)
	if be, ok := e.(*ast.BinaryExpr); ok && be.Op == token.LOR {
		return append(disjuncts10(be.X), disjuncts10(be.Y)...)
	}
	return []ast.Expr{e}
}

// innermostIfThen10: the innermost if statement whose then-body contains s.
func innermostIfThen10(root ast.Node, s ast.Node) *ast.IfStmt {
	var best *ast.IfStmt
	ast.Inspect(root, func(n ast.Node) bool {
		if is, ok := n.(*ast.IfStmt); ok && is.Body.Pos() <= s.Pos() && s.End() <= is.Body.End() {
			best = is
		}
		return true
	})
	return best
}

// windowStopVar: e is a local variable all of whose non-constant definitions are
// int64(<window>.GetLatestBounds(values.Time(t)).Stop()).
func (c *c20cur) windowStop(e ast.Expr) (types.Object, bool) {
	o := core.ObjOf(c.info, e)
	if o == nil {
		return nil, false
	}
	n := 0
	for _, d := range core.DefsOf(c.info, c.f.Decl.Body, o) {
		if d.Rhs == nil {
			return o, false
		}
		if core.ConstVal(c.info, d.Rhs) != nil {
			continue
		}
		if !c.isStopOf(d.Rhs, nil) {
			return o, false
		}
		n++
	}
	return o, n >= 1
}

// isStopOf: e is (a conversion of) W.GetLatestBounds(values.Time(t)).Stop(); when
// isT is given, t must satisfy it.
func (c *c20cur) isStopOf(e ast.Expr, isT func(ast.Expr) bool) bool {
	sc, ok := core.StripConv(c.info, e).(*ast.CallExpr)
	if !ok || !core.Glob("*flux/interval.Bounds.Stop", core.FName(core.Callee(c.info, sc))) {
		return false
	}
	gc, ok := ast.Unparen(core.Recv(sc)).(*ast.CallExpr)
	if !ok || !core.Glob("*flux/interval.Window.GetLatestBounds", core.FName(core.Callee(c.info, gc))) || len(gc.Args) != 1 {
		return false
	}
	if !c.recvField(core.Recv(gc), "window") {
		return false
	}
	return isT == nil || isT(core.StripConv(c.info, gc.Args[0]))
}

// classify decides which aggregate the cursor's Next computes ("" + reason when
// the shape is not recognised).
func (c *c20cur) classify() (kind, why string) {
	if c.recv == nil {
		return "", "no receiver"
	}
	if len(c.stores) == 0 {
		return "", "no store into c.res.Values found"
	}
	kinds := map[string]bool{}
	for _, st := range c.stores {
		k, w := c.classifyStore(st)
		if k == "" {
			return "", w
		}
		kinds[k] = true
	}
	if len(kinds) != 1 {
		return "", fmt.Sprintf("the %d result stores disagree: %v", len(c.stores), kinds)
	}
	for k := range kinds {
		kind = k
	}
	return kind, ""
}

func (c *c20cur) classifyStore(st c20store) (string, string) {
	info := c.info
	at := c.p.Pos(st.stmt.Pos())
	if st.tsVal == nil {
		return "", "value store at " + at + " has no timestamp store with the same index beside it"
	}
	v := ast.Unparen(st.val)
	// selectors first / last: the stored value is the input point itself
	if arr, vi := c.inputElem(v, "Values"); arr != nil {
		// its timestamp must be the same point's
		okTs := false
		if a2, ti := c.inputElem(st.tsVal, "Timestamps"); a2 == arr && core.SameExpr(info, ti, vi) {
			okTs = true
		}
		var rng *ast.RangeStmt
		for _, rs := range core.RangeOver(c.f.Decl.Body, func(x ast.Expr) bool { b := c.arrField(x, "Timestamps"); return b != nil && core.ObjOf(info, b) == arr }) {
			if rs.Pos() <= st.stmt.Pos() && st.stmt.End() <= rs.End() {
				rng = rs
			}
		}
		if rng == nil || rng.Key == nil || rng.Value == nil {
			return "", "selector store at " + at + " is not inside a `for i, t := range a.Timestamps` loop"
		}
		if core.ObjOf(info, st.tsVal) == core.ObjOf(info, rng.Value) && core.ObjOf(info, vi) == core.ObjOf(info, rng.Key) && core.ObjOf(info, vi) != nil {
			okTs = true
		}
		if !okTs {
			return "", "selector store at " + at + " does not pair a.Values[i] with the timestamp of the same point"
		}
		return c.classifySelector(st, rng)
	}
	// mean: sum / count
	if be, ok := v.(*ast.BinaryExpr); ok && be.Op == token.QUO {
		num, den := core.ObjOf(info, core.StripConv(info, be.X)), core.ObjOf(info, core.StripConv(info, be.Y))
		if num == nil || den == nil {
			return "", "quotient at " + at + " is not accumulator/accumulator"
		}
		kn, _, _ := c.accKind(num, "Values")
		kd, _, _ := c.accKind(den, "Values")
		if kn != "add" || kd != "inc" {
			return "", fmt.Sprintf("quotient at %s: numerator is %q, denominator %q (mean needs add / inc)", at, kn, kd)
		}
		if _, ok := c.windowStop(st.tsVal); !ok {
			return "", "mean at " + at + " is not stamped with the window stop time"
		}
		return "mean", ""
	}
	acc := core.ObjOf(info, v)
	if _, isVar := acc.(*types.Var); !isVar {
		return "", "value stored at " + at + " is neither an input point, an accumulator nor sum/count"
	}
	k, ups, idx := c.accKind(acc, "Values")
	switch k {
	case "inc", "add":
		if _, ok := c.windowStop(st.tsVal); !ok {
			return "", "aggregate at " + at + " is not stamped with the window stop time"
		}
		if k == "inc" {
			return "count", ""
		}
		return "sum", ""
	case "take":
		// timestamp travels with the value
		tsAcc := core.ObjOf(info, st.tsVal)
		if tsAcc == nil {
			return "", "min/max at " + at + ": stored timestamp is not a variable"
		}
		kt, tups, tidx := c.accKind(tsAcc, "Timestamps")
		if kt != "take" || len(tups) != len(ups) || !core.SameExpr(info, tidx, idx) {
			return "", "min/max at " + at + ": the stored timestamp is not taken from the same point as the value"
		}
		res := ""
		for i, u := range ups {
			is := innermostIfThen10(c.f.Decl.Body, u)
			if is == nil || innermostIfThen10(c.f.Decl.Body, tups[i]) != is {
				return "", "min/max: value and timestamp are not replaced under the same condition at " + c.p.Pos(u.Pos())
			}
			found := ""
			for _, d := range disjuncts10(is.Cond) {
				rel, ok := core.X4Cmp(d, func(x ast.Expr) bool {
					_, i := c.inputElem(x, "Values")
					return i != nil && core.SameExpr(info, i, idx)
				}, func(x ast.Expr) bool { return core.ObjOf(info, x) == acc })
				if !ok {
					if core.Mentions(info, d, acc) {
						return "", "min/max: unrecognised condition on the accumulator at " + c.p.Pos(d.Pos())
					}
					continue
				}
				if found != "" {
					return "", "min/max: two comparisons with the accumulator at " + c.p.Pos(d.Pos())
				}
				switch rel.Op {
				case token.LSS, token.LEQ:
					found = "min"
				case token.GTR, token.GEQ:
					found = "max"
				default:
					return "", "min/max: comparison is not an order test at " + c.p.Pos(d.Pos())
				}
			}
			if found == "" {
				return "", "replacement of the accumulator at " + c.p.Pos(u.Pos()) + " is not guarded by a comparison with it"
			}
			if res != "" && res != found {
				return "", "accumulator replaced under < in one place and > in another"
			}
			res = found
		}
		return res, ""
	}
	return "", fmt.Sprintf("accumulator stored at %s is updated as %q", at, k)
}

// geGate10: edges on which `t >= W` is established exactly (t by isT, W by isW).
func geGate10(isT, isW func(ast.Expr) bool) core.EdgePred {
	return core.AtomEdge(func(x ast.Expr, val bool) bool {
		rel, ok := core.X4Cmp(x, isT, isW)
		return ok && rel.On(val) == token.GEQ
	})
}

func (c *c20cur) classifySelector(st c20store, rng *ast.RangeStmt) (string, string) {
	info, g := c.info, c.g
	tObj := core.ObjOf(info, rng.Value)
	isT := func(e ast.Expr) bool { return core.ObjOf(info, e) == tObj }
	isW := func(e ast.Expr) bool { return c.recvField(e, "windowEnd") }
	gate := geGate10(isT, isW)
	_, body, _ := g.LoopNodes(rng)
	if body == nil {
		return "", "loop body of the scan not found"
	}
	free := g.Reach([]*core.Node{body}, nil, gate)
	sn := g.NodeOf(st.stmt)
	if sn == nil {
		return "", "store node not found"
	}
	if !free[sn] {
		return "first", ""
	}
	// last: every point overwrites the slot; the slot index advances only at a window boundary
	cur := core.ObjOf(info, st.idx)
	if cur == nil {
		return "", "selector store reachable without `t >= windowEnd` but not through an index variable"
	}
	incs := 0
	for _, n := range g.Select(g.AssigningObj(cur)) {
		if !core.InRegion(n, rng) {
			continue
		}
		if s, ok := n.N.(*ast.IncDecStmt); !ok || s.Tok != token.INC {
			return "", "output index is changed other than by ++ inside the scan"
		}
		if free[n] {
			return "", "output index advances without `t >= windowEnd`"
		}
		incs++
	}
	if incs == 0 {
		return "", "output index never advances inside the scan"
	}
	return "last", ""
}

// c20CheckKind classifies one cursor and runs the shape rules of its family.
func c20CheckKind(p *core.Prog, r *core.Report, next *core.Func, want, constName, typeName string) {
	r.Saw(next)
	c := newC20cur(p, next)
	got, why := c.classify()
	detail := fmt.Sprintf("%s -> %s: Next computes %q", strings.TrimPrefix(constName, "Aggregate_"), c.typ, got)
	if got == "" {
		detail = fmt.Sprintf("%s -> %s: accumulation shape not recognised (%s)", strings.TrimPrefix(constName, "Aggregate_"), c.typ, why)
	}
	if !r.Check(got == want, "aggregate-kind", next.String(), "is-"+want, next.Pos(), detail) {
		return
	}
	switch want {
	case "first", "last":
		c.selectorRules(r, want)
	default:
		c.accumulateRules(r, want)
	}
}

// ---------------------------------------------------------------- first / last

func (c *c20cur) tmpSave() (n *core.Node, low ast.Expr, ok bool, why string) {
	info, g := c.info, c.g
	var tsS, vS *ast.AssignStmt
	ast.Inspect(c.f.Decl.Body, func(x ast.Node) bool {
		as, isA := x.(*ast.AssignStmt)
		if !isA || len(as.Lhs) != 1 || len(as.Rhs) != 1 {
			return true
		}
		if _, isSl := ast.Unparen(as.Rhs[0]).(*ast.SliceExpr); !isSl {
			return true
		}
		if c.isTmp(as.Lhs[0], "Timestamps") {
			if tsS != nil {
				why = "more than one save of the tail into c.tmp"
			}
			tsS = as
		}
		if c.isTmp(as.Lhs[0], "Values") {
			vS = as
		}
		return true
	})
	if tsS == nil || vS == nil {
		return nil, nil, false, "no save of the unread tail into c.tmp.Timestamps / c.tmp.Values"
	}
	if why != "" {
		return nil, nil, false, why
	}
	a, b := ast.Unparen(tsS.Rhs[0]).(*ast.SliceExpr), ast.Unparen(vS.Rhs[0]).(*ast.SliceExpr)
	ba, bb := c.arrField(a.X, "Timestamps"), c.arrField(b.X, "Values")
	if ba == nil || bb == nil || !core.SameExpr(info, ba, bb) || core.ObjOf(info, ba) == nil ||
		a.High != nil || b.High != nil || a.Low == nil || b.Low == nil || !core.SameExpr(info, a.Low, b.Low) {
		return nil, nil, false, "the saved tail is not a.Timestamps[k:] / a.Values[k:] of one array with one k"
	}
	return g.NodeOf(tsS), a.Low, true, ""
}

// lowIs10: low is `idx` (plus==0) or `idx + 1` (plus==1).
func lowIs10(info *types.Info, low ast.Expr, idx types.Object, plus int) bool {
	low = ast.Unparen(low)
	if plus == 0 {
		return idx != nil && core.ObjOf(info, low) == idx
	}
	be, ok := low.(*ast.BinaryExpr)
	if !ok || be.Op != token.ADD {
		return false
	}
	one := func(e ast.Expr) bool { v, ok := core.ConstInt(info, e); return ok && v == 1 }
	return idx != nil && ((core.ObjOf(info, be.X) == idx && one(be.Y)) || (core.ObjOf(info, be.Y) == idx && one(be.X)))
}

func (c *c20cur) isMaxPoints(e ast.Expr) bool {
	k := core.ConstOf(c.info, e)
	return k != nil && k.Name() == "MaxPointsPerBlock" && k.Pkg() != nil && strings.HasSuffix(k.Pkg().Path(), readsPk10)
}

// fullGate: edges on which the output block is known to be full: a comparison of
// anything with MaxPointsPerBlock that holds as == or >=.
func (c *c20cur) fullGate() core.EdgePred {
	return core.AtomEdge(func(x ast.Expr, val bool) bool {
		rel, ok := core.X4Cmp(x, func(ast.Expr) bool { return true }, c.isMaxPoints)
		if !ok {
			return false
		}
		op := rel.On(val)
		return op == token.EQL || op == token.GEQ
	})
}

// tmpProtocol: rules shared by every cursor with a c.tmp carry-over about reading c.tmp and the input cursor.
func (c *c20cur) tmpProtocol(r *core.Report, loop ast.Node) {
	const rule = "carry-over"
	info, g, f := c.info, c.g, c.f
	isTmpLen := func(cl *ast.CallExpr) bool {
		return strings.HasSuffix(core.FName(core.Callee(info, cl)), "Array.Len") && c.recvField(core.Recv(cl), "tmp")
	}
	// the array variable
	var arr types.Object
	var fromTmp, fromCursor []*core.Node
	inputNext := func(e ast.Expr) bool {
		cl, ok := ast.Unparen(e).(*ast.CallExpr)
		if !ok || !strings.HasSuffix(core.FName(core.Callee(info, cl)), "ArrayCursor.Next") {
			return false
		}
		rv := ast.Unparen(core.Recv(cl))
		se, ok := rv.(*ast.SelectorExpr)
		return ok && core.ObjOf(info, se.X) == c.recv && core.FieldOf(info, se) != nil && core.FieldOf(info, se).Embedded()
	}
	for _, n := range g.Nodes {
		as, ok := n.N.(*ast.AssignStmt)
		if !ok || len(as.Lhs) != 1 || len(as.Rhs) != 1 {
			continue
		}
		switch {
		case c.recvField(as.Rhs[0], "tmp"):
			fromTmp = append(fromTmp, n)
			arr = core.ObjOf(info, as.Lhs[0])
		case inputNext(as.Rhs[0]):
			fromCursor = append(fromCursor, n)
		}
	}
	if !r.Check(len(fromTmp) == 1 && arr != nil && len(fromCursor) >= 1, rule, f.String(), "input-sources", f.Pos(),
		fmt.Sprintf("the scanned array is taken from c.tmp (%d site) or from the input cursor's Next (%d sites)", len(fromTmp), len(fromCursor))) {
		return
	}
	// c.tmp is read first, exactly when it is non-empty
	nonEmpty := core.AtomEdge(func(x ast.Expr, val bool) bool {
		_, eval, ok := lenCallCmp10(info, x, isTmpLen)
		return ok && !eval(0, val) && eval(1, val)
	})
	empty := core.AtomEdge(func(x ast.Expr, val bool) bool {
		_, eval, ok := lenCallCmp10(info, x, isTmpLen)
		return ok && eval(0, val) && !eval(1, val)
	})
	noTmp := g.ReachFromEntry(nil, nonEmpty)
	r.Check(!noTmp[fromTmp[0]], rule, f.String(), "tmp-read-when-nonempty", g.Line(fromTmp[0]), "a = c.tmp only when c.tmp.Len() > 0")
	// the first refill (outside the scan loop) happens only when c.tmp is empty
	withTmp := g.ReachFromEntry(core.InStmt(loop), empty)
	for _, n := range fromCursor {
		if loop != nil && core.InRegion(n, loop) {
			continue
		}
		r.Check(!withTmp[n], rule, f.String(), "tmp-before-input", g.Line(n), "the input cursor is asked for a new array only when no saved tail is pending (a pending tail is never skipped)")
	}
	// clearing
	clear := func(n *core.Node) bool {
		as, ok := n.N.(*ast.AssignStmt)
		return ok && len(as.Lhs) == 1 && len(as.Rhs) == 1 && c.isTmp(as.Lhs[0], "Timestamps") && core.IsNilIdent(info, as.Rhs[0])
	}
	clearV := func(n *core.Node) bool {
		as, ok := n.N.(*ast.AssignStmt)
		return ok && len(as.Lhs) == 1 && len(as.Rhs) == 1 && c.isTmp(as.Lhs[0], "Values") && core.IsNilIdent(info, as.Rhs[0])
	}
	r.Check(len(g.Select(clear)) >= 1 && len(g.Select(clear)) == len(g.Select(clearV)), rule, f.String(), "tmp-clear:absent", f.Pos(), "c.tmp.Timestamps and c.tmp.Values are cleared together once the array has been read completely")
}

// lenCallCmp10 decodes `X.Len() op c`; eval(n, branch) tells whether the atom's
// branch holds for length n.
func lenCallCmp10(info *types.Info, cond ast.Expr, isLen func(*ast.CallExpr) bool) (ast.Expr, func(n int64, branch bool) bool, bool) {
	be, ok := ast.Unparen(cond).(*ast.BinaryExpr)
	if !ok {
		return nil, nil, false
	}
	x, y, op := ast.Unparen(be.X), ast.Unparen(be.Y), be.Op
	cl, isCall := x.(*ast.CallExpr)
	if !isCall || !isLen(cl) {
		cl, isCall = y.(*ast.CallExpr)
		if !isCall || !isLen(cl) {
			return nil, nil, false
		}
		x, y = y, x
		switch op {
		case token.LSS:
			op = token.GTR
		case token.LEQ:
			op = token.GEQ
		case token.GTR:
			op = token.LSS
		case token.GEQ:
			op = token.LEQ
		}
	}
	k, isC := core.ConstInt(info, y)
	if !isC {
		return nil, nil, false
	}
	return x, func(n int64, branch bool) bool {
		var v bool
		switch op {
		case token.EQL:
			v = n == k
		case token.NEQ:
			v = n != k
		case token.LSS:
			v = n < k
		case token.LEQ:
			v = n <= k
		case token.GTR:
			v = n > k
		case token.GEQ:
			v = n >= k
		default:
			return false
		}
		return v == branch
	}, true
}

func (c *c20cur) selectorRules(r *core.Report, kind string) {
	info, g, f := c.info, c.g, c.f
	st := c.stores[0]
	var rng *ast.RangeStmt
	ast.Inspect(f.Decl.Body, func(n ast.Node) bool {
		if rs, ok := n.(*ast.RangeStmt); ok && rs.Pos() <= st.stmt.Pos() && st.stmt.End() <= rs.End() {
			rng = rs
		}
		return true
	})
	if rng == nil {
		return
	}
	tObj, iObj := core.ObjOf(info, rng.Value), core.ObjOf(info, rng.Key)
	isT := func(e ast.Expr) bool { return core.ObjOf(info, e) == tObj }
	head, body, _ := g.LoopNodes(rng)
	sn := g.NodeOf(st.stmt)
	// windowEnd is re-based on the stored point's window in every iteration that stores a value
	weF := core.LookupField(f.Pkg.Types, c.typ, "windowEnd")
	upd := func(n *core.Node) bool {
		as, ok := n.N.(*ast.AssignStmt)
		return ok && len(as.Lhs) == 1 && len(as.Rhs) == 1 && weF != nil && core.FieldOf(info, as.Lhs[0]) == weF && c.isStopOf(as.Rhs[0], isT)
	}
	if r.Check(len(g.Select(upd)) >= 1 && head != nil && body != nil && sn != nil, "window-select", f.String(), "windowEnd-update:absent", f.Pos(), "c.windowEnd = c.window.GetLatestBounds(t).Stop() for the scanned timestamp t") {
		before := g.Reach([]*core.Node{body}, upd, nil) // reached from the iteration start without an update
		bad := false
		if before[sn] {
			after := g.Reach(core.After(sn, nil), upd, nil)
			if after[head] {
				bad = true
			}
		}
		r.Check(!bad, "window-select", f.String(), "windowEnd-update", g.Line(sn), "every iteration that stores a point moves windowEnd to the end of that point's window")
		// all writes to windowEnd are of that form
		for _, n := range g.Select(g.Assigning(weF)) {
			r.Check(upd(n), "window-select", f.String(), "windowEnd-source", g.Line(n), "windowEnd is only ever set from GetLatestBounds(t).Stop()")
		}
	}
	// carry-over
	const rule = "carry-over"
	kn, low, ok, why := c.tmpSave()
	if !r.Check(ok && kn != nil, rule, f.String(), "tmp-save", f.Pos(), "unread tail saved as a.Timestamps[k:] / a.Values[k:] with one k "+why) {
		return
	}
	r.Check(!g.ReachFromEntry(nil, c.fullGate())[kn], rule, f.String(), "tmp-save-only-when-full", g.Line(kn), "the tail is saved only when the output block holds MaxPointsPerBlock points")
	// has the current point been stored when the tail is saved?
	consumedBefore := !g.Reach([]*core.Node{body}, func(n *core.Node) bool { return n == sn }, nil)[kn]
	consumedAfter := g.Reach(core.After(kn, nil), func(n *core.Node) bool { return n == head }, nil)[sn]
	switch {
	case consumedBefore && !consumedAfter:
		r.Check(lowIs10(info, low, iObj, 1), rule, f.String(), "tmp-save-bound", g.Line(kn), "the current point was already emitted, so the saved tail starts at i+1")
	case !consumedBefore && !consumedAfter:
		r.Check(lowIs10(info, low, iObj, 0), rule, f.String(), "tmp-save-bound", g.Line(kn), "the current point was not emitted, so the saved tail starts at i")
	default:
		r.Bad(rule, f.String(), "tmp-save-bound", g.Line(kn), "cannot decide whether the current point is emitted before the tail is saved")
	}
	// after saving, the call returns (no further scanning)
	after := g.Reach(core.After(kn, nil), nil, nil)
	r.Check(!after[head] && !after[sn], rule, f.String(), "tmp-save-then-return", g.Line(kn), "after saving the tail nothing more is scanned or emitted in this call")
	c.tmpProtocol(r, rng)
	// the refill after a completely read array is preceded by clearing c.tmp
	c.refillAfterClear(r, rng)
}

// refillAfterClear: on every path from the end of the scan loop to the next
// read of an input array, c.tmp has been cleared.
func (c *c20cur) refillAfterClear(r *core.Report, loop ast.Stmt) {
	const rule = "carry-over"
	info, g, f := c.info, c.g, c.f
	_, _, done := g.LoopNodes(loop)
	if !r.Check(done != nil, rule, f.String(), "scan-loop-exit:absent", f.Pos(), "scan loop has a normal exit") {
		return
	}
	clear := func(n *core.Node) bool {
		as, ok := n.N.(*ast.AssignStmt)
		return ok && len(as.Lhs) == 1 && len(as.Rhs) == 1 && c.isTmp(as.Lhs[0], "Timestamps") && core.IsNilIdent(info, as.Rhs[0])
	}
	reach := g.Reach([]*core.Node{done}, clear, nil)
	bad := ""
	for n := range reach {
		if n.N == nil {
			continue
		}
		// a read of c.tmp or of the input cursor without the clear in between
		if as, ok := n.N.(*ast.AssignStmt); ok && len(as.Rhs) == 1 {
			if cl, isCall := ast.Unparen(as.Rhs[0]).(*ast.CallExpr); isCall && strings.HasSuffix(core.FName(core.Callee(info, cl)), "ArrayCursor.Next") {
				bad = g.Line(n)
			}
			if c.recvField(as.Rhs[0], "tmp") {
				bad = g.Line(n)
			}
		}
	}
	r.Check(bad == "", rule, f.String(), "clear-before-refill", g.Line(done), "after an array was read to its end c.tmp is cleared before the next array is fetched (a consumed tail is never replayed) "+bad)
}

// ---------------------------------------------------------------- count / sum / min / max / mean

func (c *c20cur) accumulateRules(r *core.Report, kind string) {
	const rule = "window-accumulate"
	info, g, f := c.info, c.g, c.f
	// accumulators, their updates and resets
	accObjs := map[types.Object]bool{}
	var updates []ast.Node
	addAcc := func(o types.Object, which string) {
		if o == nil || accObjs[o] {
			return
		}
		accObjs[o] = true
		_, ups, _ := c.accKind(o, which)
		updates = append(updates, ups...)
	}
	for _, st := range c.stores {
		v := ast.Unparen(st.val)
		if be, ok := v.(*ast.BinaryExpr); ok && be.Op == token.QUO {
			addAcc(core.ObjOf(info, core.StripConv(info, be.X)), "Values")
			addAcc(core.ObjOf(info, core.StripConv(info, be.Y)), "Values")
		} else {
			addAcc(core.ObjOf(info, v), "Values")
		}
	}
	if !r.Check(len(updates) >= 1, rule, f.String(), "consume:absent", f.Pos(), "points are folded into the accumulator(s)") {
		return
	}
	// the scan loop: innermost for statement around the first update
	var inner *ast.ForStmt
	ast.Inspect(f.Decl.Body, func(n ast.Node) bool {
		if fs, ok := n.(*ast.ForStmt); ok && fs.Pos() <= updates[0].Pos() && updates[0].End() <= fs.End() {
			inner = fs
		}
		return true
	})
	if !r.Check(inner != nil && inner.Cond != nil, rule, f.String(), "scan-loop:absent", f.Pos(), "points are scanned by an index loop") {
		return
	}
	var idx types.Object
	if be, ok := ast.Unparen(inner.Cond).(*ast.BinaryExpr); ok {
		idx = core.ObjOf(info, be.X)
		if idx == nil {
			idx = core.ObjOf(info, be.Y)
		}
	}
	condN := g.NodeOf(inner.Cond)
	if !r.Check(idx != nil && condN != nil, rule, f.String(), "scan-index:absent", p20pos(c, inner), "scan index found in the loop condition") {
		return
	}
	isCond := func(n *core.Node) bool { return n == condN }
	// ts := a.Timestamps[idx]; windowEnd variable; flag
	isTs := func(e ast.Expr) bool {
		e = core.ResolveLocal(info, f.Decl.Body, e)
		_, i := c.inputElem(e, "Timestamps")
		return i != nil && core.ObjOf(info, i) == idx
	}
	var wEnd types.Object
	ast.Inspect(f.Decl.Body, func(n ast.Node) bool {
		if as, ok := n.(*ast.AssignStmt); ok && len(as.Lhs) == 1 && len(as.Rhs) == 1 && c.isStopOf(as.Rhs[0], nil) {
			if o, ok2 := c.windowStop(as.Lhs[0]); ok2 {
				wEnd = o
			}
		}
		return true
	})
	if !r.Check(wEnd != nil, rule, f.String(), "windowEnd:absent", f.Pos(), "a local window end is derived from GetLatestBounds(t).Stop()") {
		return
	}
	isW := func(e ast.Expr) bool { return core.ObjOf(info, e) == wEnd }
	gate := geGate10(isTs, isW)
	var gateTo []*core.Node
	for _, e := range g.Edges(gate) {
		if core.InRegion(e.From, inner) {
			gateTo = append(gateTo, e.To)
		}
	}
	if !r.Check(len(gateTo) >= 1, rule, f.String(), "boundary-test:absent", p20pos(c, inner), "the scan tests `ts >= windowEnd` for the scanned timestamp") {
		return
	}
	// has-points flag: boolean variable tested on the way to every result store
	var flag types.Object
	for _, st := range c.stores {
		if is := innermostIfThen10(f.Decl.Body, st.stmt); is != nil {
			if o, ok := core.ObjOf(info, is.Cond).(*types.Var); ok {
				flag = o
			}
		}
	}
	if !r.Check(flag != nil, rule, f.String(), "has-points-flag:absent", f.Pos(), "result stores are guarded by a has-points flag") {
		return
	}
	flagTrue := core.AtomEdge(func(x ast.Expr, val bool) bool { return core.ObjOf(info, x) == flag && val })
	setFlag := func(v bool) core.NodePred {
		return func(n *core.Node) bool {
			as, ok := n.N.(*ast.AssignStmt)
			return ok && len(as.Lhs) == 1 && len(as.Rhs) == 1 && core.ObjOf(info, as.Lhs[0]) == flag && core.X1IsConstBool(info, as.Rhs[0], v)
		}
	}
	// (a) emission guards
	noFlag := g.ReachFromEntry(nil, flagTrue)
	noGate := g.ReachFromEntry(nil, gate)
	inLoop, final := 0, 0
	for _, st := range c.stores {
		n := g.NodeOf(st.stmt)
		if n == nil {
			continue
		}
		r.Check(!noFlag[n], rule, f.String(), "emit-only-nonempty", g.Line(n), "a window is emitted only when it has points")
		if core.InRegion(n, inner) {
			inLoop++
			r.Check(!noGate[n], rule, f.String(), "emit-at-boundary", g.Line(n), "inside the scan a window is emitted only when a point at or after its end shows up (`ts >= windowEnd`)")
		} else {
			final++
		}
	}
	r.Check(inLoop >= 1 && final >= 1, rule, f.String(), "emit-sites", f.Pos(), fmt.Sprintf("%d emission(s) at a window boundary and %d for the last window at end of input", inLoop, final))
	// (b)+(c) the boundary path
	path := g.Reach(gateTo, isCond, nil)
	isUpdate := func(n *core.Node) bool {
		for _, u := range updates {
			if n.N == u {
				return true
			}
		}
		return false
	}
	badU, badIdx := "", ""
	for n := range path {
		if n == condN {
			continue
		}
		if isUpdate(n) {
			badU = g.Line(n)
		}
		if g.AssigningObj(idx)(n) {
			badIdx = g.Line(n)
		}
	}
	r.Check(badU == "", rule, f.String(), "boundary-point-not-consumed-early", p20pos(c, inner), "the point that closes a window is not folded into the old window "+badU)
	r.Check(badIdx == "", rule, f.String(), "boundary-point-rescanned", p20pos(c, inner), "the scan index does not move on the boundary path: the closing point is looked at again with the new window "+badIdx)
	mustPass := func(what, detail string, pred core.NodePred) {
		rr := g.Reach(gateTo, pred, nil)
		r.Check(len(g.Select(pred)) >= 1 && !rr[condN], rule, f.String(), what, p20pos(c, inner), detail)
	}
	mustPass("new-window-end", "before the closing point is looked at again windowEnd = GetLatestBounds(ts).Stop() of that point", func(n *core.Node) bool {
		as, ok := n.N.(*ast.AssignStmt)
		return ok && len(as.Lhs) == 1 && len(as.Rhs) == 1 && core.ObjOf(info, as.Lhs[0]) == wEnd && c.isStopOf(as.Rhs[0], isTs)
	})
	mustPass("new-window-flag", "the has-points flag is cleared for the new window", setFlag(false))
	for o := range accObjs {
		o := o
		mustPass("new-window-reset:"+o.Name(), "accumulator "+o.Name()+" is reset to a constant for the new window", func(n *core.Node) bool {
			as, ok := n.N.(*ast.AssignStmt)
			return ok && as.Tok == token.ASSIGN && len(as.Lhs) == 1 && len(as.Rhs) == 1 && core.ObjOf(info, as.Lhs[0]) == o && core.ConstVal(info, as.Rhs[0]) != nil
		})
	}
	// (d) consuming a point marks the window non-empty
	for _, u := range updates {
		un := g.NodeOf(u)
		if un == nil {
			continue
		}
		rr := g.Reach(core.After(un, nil), setFlag(true), nil)
		r.Check(!rr[condN], rule, f.String(), "consume-sets-flag", g.Line(un), "every consumed point marks the window as having points")
	}
	// (e) carry-over
	const ruleC = "carry-over"
	kn, low, ok, why := c.tmpSave()
	if r.Check(ok && kn != nil, ruleC, f.String(), "tmp-save", f.Pos(), "unread tail saved as a.Timestamps[k:] / a.Values[k:] with one k "+why) {
		r.Check(!g.ReachFromEntry(nil, c.fullGate())[kn], ruleC, f.String(), "tmp-save-only-when-full", g.Line(kn), "the tail is saved only when the output block holds MaxPointsPerBlock points")
		r.Check(path[kn] && lowIs10(info, low, idx, 0), ruleC, f.String(), "tmp-save-bound", g.Line(kn), "the tail is saved on the boundary path, where the closing point has not been consumed, so it starts at the scan index")
		after := g.Reach(core.After(kn, nil), nil, nil)
		bad := after[condN]
		for _, st := range c.stores {
			if n := g.NodeOf(st.stmt); n != nil && after[n] {
				bad = true
			}
		}
		r.Check(!bad, ruleC, f.String(), "tmp-save-then-return", g.Line(kn), "after saving the tail nothing more is scanned or emitted in this call")
	}
	// outer loop = statement containing the inner one that is itself a for
	var outer ast.Stmt = inner
	ast.Inspect(f.Decl.Body, func(n ast.Node) bool {
		if fs, ok := n.(*ast.ForStmt); ok && fs != inner && fs.Pos() <= inner.Pos() && inner.End() <= fs.End() {
			outer = fs
		}
		return true
	})
	c.tmpProtocol(r, outer)
	c.refillAfterClear(r, inner)
}

func p20pos(c *c20cur, n ast.Node) string { return c.p.Pos(n.Pos()) }

// ---------------------------------------------------------------- Timestamps / Values lockstep

// twin: a and b are the same expression except that a selects Timestamps where b selects Values.
func twin10(info *types.Info, a, b ast.Expr) bool {
	a, b = ast.Unparen(a), ast.Unparen(b)
	if a == nil || b == nil {
		return a == nil && b == nil
	}
	switch x := a.(type) {
	case *ast.SelectorExpr:
		y, ok := b.(*ast.SelectorExpr)
		if !ok {
			return false
		}
		fa, fb := core.FieldOf(info, x), core.FieldOf(info, y)
		if fa != nil && fb != nil && fa.Name() == "Timestamps" && fb.Name() == "Values" {
			return core.SameExpr(info, x.X, y.X)
		}
		return core.SameExpr(info, a, b)
	case *ast.SliceExpr:
		y, ok := b.(*ast.SliceExpr)
		return ok && twin10(info, x.X, y.X) && twin10(info, x.Low, y.Low) && twin10(info, x.High, y.High) && twin10(info, x.Max, y.Max)
	case *ast.IndexExpr:
		y, ok := b.(*ast.IndexExpr)
		return ok && twin10(info, x.X, y.X) && core.SameExpr(info, x.Index, y.Index)
	case *ast.CallExpr:
		y, ok := b.(*ast.CallExpr)
		if !ok || len(x.Args) != len(y.Args) || !core.SameExpr(info, x.Fun, y.Fun) {
			return false
		}
		for i := range x.Args {
			if !twin10(info, x.Args[i], y.Args[i]) {
				return false
			}
		}
		return true
	}
	return core.SameExpr(info, a, b)
}

// c20Lockstep: in every method of the selected templates, the statements that
// reshape or index-store Timestamps pair up, in order, with those on Values.
func c20Lockstep(p *core.Prog, r *core.Report, keep func(string) bool, min int) {
	const rule = "ts-values-lockstep"
	keys, err := core.SiblingKeys10(p, readsPk10, genCursors10)
	if err != nil {
		r.Bad("anchor", readsPk10+"/"+genCursors10, "unresolved", "-", err.Error())
		return
	}
	var names []string
	for n, k := range keys {
		if keep(k) {
			names = append(names, n)
		}
	}
	sort.Strings(names)
	checked, pairs := 0, 0
	for _, n := range names {
		f := p.Func(readsPk10, n)
		if f == nil || f.Decl.Body == nil {
			continue
		}
		info := f.Info()
		fieldName := func(e ast.Expr) string {
			e = ast.Unparen(e)
			if ix, ok := e.(*ast.IndexExpr); ok {
				e = ast.Unparen(ix.X)
			}
			if fv := core.FieldOf(info, e); fv != nil && fv.Pkg() != nil && strings.HasSuffix(fv.Pkg().Path(), "tsdb/cursors") {
				return fv.Name()
			}
			return ""
		}
		var ts, vs []*ast.AssignStmt
		ast.Inspect(f.Decl.Body, func(x ast.Node) bool {
			as, ok := x.(*ast.AssignStmt)
			if !ok || len(as.Lhs) != 1 || len(as.Rhs) != 1 {
				return true
			}
			switch fieldName(as.Lhs[0]) {
			case "Timestamps":
				ts = append(ts, as)
			case "Values":
				vs = append(vs, as)
			}
			return true
		})
		if len(ts) == 0 && len(vs) == 0 {
			continue
		}
		checked++
		r.Saw(f)
		if len(ts) != len(vs) {
			r.Bad(rule, f.String(), "count", f.Pos(), fmt.Sprintf("%d stores/reslices on Timestamps but %d on Values", len(ts), len(vs)))
			continue
		}
		for i := range ts {
			a, b := ts[i], vs[i]
			good := twin10(info, a.Lhs[0], b.Lhs[0])
			// the stored element differs by nature (a time vs a value); shapes that move data must be twins
			switch ast.Unparen(a.Rhs[0]).(type) {
			case *ast.SliceExpr:
				good = good && twin10(info, a.Rhs[0], b.Rhs[0])
			case *ast.Ident:
				if core.IsNilIdent(info, a.Rhs[0]) {
					good = good && core.IsNilIdent(info, b.Rhs[0])
				}
			case *ast.CallExpr:
				ca, cb := ast.Unparen(a.Rhs[0]).(*ast.CallExpr), (*ast.CallExpr)(nil)
				cb, _ = ast.Unparen(b.Rhs[0]).(*ast.CallExpr)
				if core.Builtin("append")(info, ca) {
					good = good && cb != nil && core.Builtin("append")(info, cb) && len(ca.Args) == 2 && len(cb.Args) == 2 && twin10(info, ca.Args[0], cb.Args[0])
				}
			case *ast.IndexExpr:
				// res.T[0] = a.T[0]
				if _, isIx := ast.Unparen(b.Rhs[0]).(*ast.IndexExpr); isIx {
					good = good && twin10(info, a.Rhs[0], b.Rhs[0])
				}
			}
			if !good {
				r.Bad(rule, f.String(), "twin-mismatch", p.Pos(b.Pos()), fmt.Sprintf("`%s` and `%s` are not the same operation on Timestamps and Values",
					core.Trim(core.ExprStr(a.Lhs[0])+" = "+core.ExprStr(a.Rhs[0]), 60), core.Trim(core.ExprStr(b.Lhs[0])+" = "+core.ExprStr(b.Rhs[0]), 60)))
			} else {
				pairs++
			}
		}
	}
	if r.Check(checked >= min, rule, readsPk10+"/"+genCursors10, "functions:count", "-", fmt.Sprintf("%d methods touch Timestamps/Values (>= %d confirmed by reading)", checked, min)) {
		r.Ok(rule, readsPk10+"/"+genCursors10+":pairs", "-", fmt.Sprintf("%d statement pairs on Timestamps/Values are twins", pairs))
	}
}
