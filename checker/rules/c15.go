package rules

import (
	"fmt"
	"go/ast"
	"go/constant"
	"go/types"
	"sort"
	"strings"

	"verif/checker/core"
)

const influxqlPkg10 = "github.com/influxdata/influxql"

func init() {
	register(&Prop{
		ID:        "C15",
		Patterns:  []string{"./tsdb"},
		Level:     "other",
		Technique: "static analysis: finite decision tables over the operator/emptiness/regex predicates, evaluated by reachability on the CFG under each valuation (no code executed), plus operand provenance of the set combinators",
		Explanation: "The tag-expression evaluator of tsdb.IndexSet is a chain of dispatch functions; what is decided is that every operator of the property reaches the set construction InfluxQL semantics require, with an absent tag comparing as the empty string. " +
			"(1) expr-dispatch — IndexSet.seriesByExprIterator: under expr.Op=AND only IntersectSeriesIDIterators is reachable, under OR only UnionSeriesIDIterators, under =,!=,=~,!~ only seriesByBinaryExprIterator (tag-switch and if edges evaluated per valuation); both operands of the combinator come from the recursive calls on expr.LHS and expr.RHS (one each); the *ParenExpr arm returns the recursion on its inner expression; the measurement name is passed through. " +
			"(2) binary-dispatch — seriesByBinaryExprIterator: the value type switch has arms for *StringLiteral, *RegexLiteral and *VarRef, each returning its own helper with (name, key.Val, literal value, n.Op); joint reaching definitions show that whenever the tag key is taken from n.LHS the value is n.RHS and vice versa, and both orientations reach the switch. " +
			"(3) string-op-table — seriesByBinaryExprStringIterator, 4 rows (op in {=,!=} x value empty?): = 'v' returns tagValueSeriesIDIterator; = '' returns measurement \\ tagKey (series lacking the key); != 'v' returns measurement \\ tagValue; != '' returns tagKeySeriesIDIterator; the minuend of every difference is the measurement's series; plus the 4 rows of the _name pseudo tag. " +
			"(4) regex-op-table — seriesByBinaryExprRegexIterator passes (name,key,value) and a `matches` argument that evaluates to true under =~ and false under !~ to matchTagValueSeriesIDIterator on every path for a real tag key. " +
			"(5) varref-op-table — seriesByBinaryExprVarRefIterator: = intersects, != subtracts, operands being the tagKey iterators of the key and of the referenced tag in that order. " +
			"(6) regex-2x2 — matchTagValueSeriesIDIterator: matchEmpty is value.MatchString(\"\"); each of the 4 valuations of (matches, matchEmpty) returns exactly one helper, four distinct ones, with (name,key,value) forwarded. " +
			"(7) regex-helper-shape — the helper selected for (matches, matchEmpty) must have the shape the semantics require, derived from the valuation and not from its name: it collects tagValueSeriesIDIterator(name,key,e) for the values e on which value.Match(e) == (matches XOR complement), where complement == (matches == matchEmpty), i.e. series without the tag count as matching exactly when the regex matches the empty string; a complement helper returns measurement \\ merge(collected) and all measurement series when the key has no values, a plain helper returns merge(collected) and nothing when the key has no values. " +
			"(8) entry-chain — measurementSeriesByExprIterator filters deleted series on every success path and evaluates a non-nil expression through seriesByExprIterator.",
		NotCovered: "the set algebra itself (Intersect/Union/Difference/Merge iterators and the per-index tag value iterators), field/expression fallbacks that defer to the query engine (newSeriesIDExprIterator), operators other than = != =~ !~ on tags (a string comparison with any other operator is treated like !=), regex fast paths inside tsi1, authorisation filtering.",
		Assumptions: []string{
			"a row of a decision table is the set of calls reachable on the CFG when the listed atomic conditions are fixed and every other condition (error tests) is left open",
			"helper identity is by resolved callee; their meaning is checked by shape only for the four regex helpers",
		},
		Run: runC15,
	})
}

type c15ctx struct {
	p  *core.Prog
	r  *core.Report
	iq *types.Package
}

func (c *c15ctx) tok(name string) constant.Value {
	if k, ok := c.iq.Scope().Lookup(name).(*types.Const); ok {
		return k.Val()
	}
	return nil
}

const (
	c15Inter = "tsdb.IntersectSeriesIDIterators"
	c15Union = "tsdb.UnionSeriesIDIterators"
	c15Diff  = "tsdb.DifferenceSeriesIDIterators"
	c15Merge = "tsdb.MergeSeriesIDIterators"
	c15Meas  = "tsdb.IndexSet.measurementSeriesIDIterator"
	c15Key   = "tsdb.IndexSet.tagKeySeriesIDIterator"
	c15Val   = "tsdb.IndexSet.tagValueSeriesIDIterator"
	c15Bin   = "tsdb.IndexSet.seriesByBinaryExprIterator"
	c15Expr  = "tsdb.IndexSet.seriesByExprIterator"
	c15Match = "tsdb.IndexSet.matchTagValueSeriesIDIterator"
)

var c15SetCalls = call(c15Inter, c15Union, c15Diff, c15Merge, c15Meas, c15Key, c15Val, c15Bin, c15Expr, c15Match,
	"tsdb.IndexSet.seriesByBinaryExpr*Iterator", "tsdb.IndexSet.matchTagValue*SeriesIDIterator", "tsdb.newSeriesIDExprIterator")

func runC15(p *core.Prog, r *core.Report, tier string) {
	pk := p.Pkg(influxqlPkg10)
	if pk == nil || pk.Types == nil {
		r.Bad("anchor", influxqlPkg10, "unresolved", "-", "package not loaded")
		return
	}
	c := &c15ctx{p: p, r: r, iq: pk.Types}
	for _, n := range []string{"AND", "OR", "EQ", "NEQ", "EQREGEX", "NEQREGEX"} {
		if !r.Check(c.tok(n) != nil, "anchor", "influxql."+n, "unresolved", "-", "operator token constant resolved") {
			return
		}
	}
	c.exprDispatch()
	c.binaryDispatch()
	c.stringTable()
	c.regexTable()
	c.varRefTable()
	c.regex2x2()
	c.entryChain()
}

func isParam10(info *types.Info, v *types.Var) func(ast.Expr) bool {
	return func(e ast.Expr) bool { return v != nil && core.ObjOf(info, e) == v }
}

func setStr10(xs []string) string {
	var out []string
	for _, x := range xs {
		out = append(out, strings.TrimPrefix(strings.TrimPrefix(x, "tsdb.IndexSet."), "tsdb."))
	}
	return "{" + strings.Join(out, ", ") + "}"
}

func sameSet10(a, b []string) bool {
	a, b = append([]string{}, a...), append([]string{}, b...)
	sort.Strings(a)
	sort.Strings(b)
	if len(a) != len(b) {
		return false
	}
	for i := range a {
		if a[i] != b[i] {
			return false
		}
	}
	return true
}

// callOf10: e is (after parentheses) a call of the named callee.
func callOf10(info *types.Info, e ast.Expr, name string) *ast.CallExpr {
	c, ok := ast.Unparen(e).(*ast.CallExpr)
	if !ok || core.FName(core.Callee(info, c)) != name {
		return nil
	}
	return c
}

// defCall10: the local variable denoted by e has exactly one definition, from a call; returns it.
func defCall10(info *types.Info, body ast.Node, e ast.Expr) *ast.CallExpr {
	o := core.ObjOf(info, e)
	if o == nil {
		return nil
	}
	d, ok := core.SingleDef(info, body, o)
	if !ok || d.Rhs == nil || d.Range != nil {
		return nil
	}
	c, _ := ast.Unparen(d.Rhs).(*ast.CallExpr)
	return c
}

// successReturns10: the return statements among the success exits in reach.
func successReturns10(g *core.Graph, reach map[*core.Node]bool) []*ast.ReturnStmt {
	var out []*ast.ReturnStmt
	for _, x := range g.SuccessExits() {
		if !reach[x] {
			continue
		}
		if rs, ok := x.N.(*ast.ReturnStmt); ok {
			out = append(out, rs)
		}
	}
	return out
}

// ---------------------------------------------------------------- (1) AND / OR / parentheses

func (c *c15ctx) exprDispatch() {
	const rule = "expr-dispatch"
	r, p := c.r, c.p
	f := r.Need(p, tsdbP, "IndexSet.seriesByExprIterator")
	if f == nil {
		return
	}
	info, g := f.Info(), f.Graph()
	opF := core.LookupField(c.iq, "BinaryExpr", "Op")
	lhsF := core.LookupField(c.iq, "BinaryExpr", "LHS")
	rhsF := core.LookupField(c.iq, "BinaryExpr", "RHS")
	innerF := core.LookupField(c.iq, "ParenExpr", "Expr")
	if !r.Check(opF != nil && lhsF != nil && rhsF != nil && innerF != nil, "anchor", "influxql.BinaryExpr/ParenExpr fields", "unresolved", f.Pos(), "fields Op, LHS, RHS, Expr resolved") {
		return
	}
	isOp := func(e ast.Expr) bool { return core.FieldOf(info, e) == opF }
	obs := call(c15Inter, c15Union, c15Bin)
	rows := []struct{ op, want string }{
		{"AND", c15Inter}, {"OR", c15Union}, {"EQ", c15Bin}, {"NEQ", c15Bin}, {"EQREGEX", c15Bin}, {"NEQREGEX", c15Bin},
	}
	for _, row := range rows {
		reach := g.ReachUnder10([]*core.Node{g.Entry}, nil, core.ConstEqLeaf10(info, isOp, c.tok(row.op)))
		names, _ := g.CallsReached10(reach, obs)
		r.Check(sameSet10(names, []string{row.want}), rule, f.String(), "op="+row.op, f.Pos(),
			fmt.Sprintf("with expr.Op == %s exactly %s is reachable (found %s)", row.op, setStr10([]string{row.want}), setStr10(names)))
	}
	// arms of the expression type switch
	var bin, paren *core.TypeArm10
	nameP := f.Param(0)
	for _, sw := range core.TypeSwitches10(info, f.Decl.Body) {
		if core.ObjOf(info, sw.Operand) != f.Param(1) {
			continue
		}
		for i := range sw.Arms {
			a := &sw.Arms[i]
			for _, t := range a.Types {
				switch core.NamedName10(t) {
				case "influxql.BinaryExpr":
					bin = a
				case "influxql.ParenExpr":
					paren = a
				}
			}
		}
	}
	if r.Check(bin != nil && bin.Bound != nil, rule, f.String(), "arm:*influxql.BinaryExpr:absent", f.Pos(), "type switch on expr has a *BinaryExpr arm") {
		rec := core.AllCalls(info, bin.Clause, call(c15Expr))
		fields := map[*types.Var]*ast.CallExpr{}
		okArgs := len(rec) >= 2
		for _, rc := range rec {
			if len(rc.Args) != 2 || core.ObjOf(info, rc.Args[0]) != nameP {
				okArgs = false
				continue
			}
			se, _ := ast.Unparen(rc.Args[1]).(*ast.SelectorExpr)
			if se == nil || core.ObjOf(info, se.X) != bin.Bound {
				okArgs = false
				continue
			}
			fields[core.FieldOf(info, se)] = rc
		}
		r.Check(okArgs && fields[lhsF] != nil && fields[rhsF] != nil && len(fields) == 2, rule, f.String(), "recursion-operands", p.Pos(bin.Clause.Pos()),
			"the AND/OR arm recurses with the same measurement name on expr.LHS and on expr.RHS")
		// combinator operands: one from each recursive call
		comb := core.AllCalls(info, bin.Clause, call(c15Inter, c15Union))
		r.Check(len(comb) >= 2, rule, f.String(), "combinators:absent", p.Pos(bin.Clause.Pos()), "intersection and union are built in the AND/OR arm")
		for _, cc := range comb {
			good := len(cc.Args) == 2
			from := map[*ast.CallExpr]bool{}
			if good {
				for _, a := range cc.Args {
					d := defCall10(info, f.Decl.Body, a)
					if d == nil || (d != fields[lhsF] && d != fields[rhsF]) {
						good = false
					}
					from[d] = true
				}
			}
			r.Check(good && len(from) == 2, rule, f.String(), "operands:"+strings.TrimPrefix(core.FName(core.Callee(info, cc)), "tsdb."), p.Pos(cc.Pos()),
				"the two operands are the results of the recursion on expr.LHS and on expr.RHS (one each)")
		}
	}
	if r.Check(paren != nil && paren.Bound != nil, rule, f.String(), "arm:*influxql.ParenExpr:absent", f.Pos(), "type switch on expr has a *ParenExpr arm") {
		rets := core.ReturnsOf10(paren.Clause)
		good := len(rets) >= 1
		for _, rs := range rets {
			okRet := false
			if len(rs.Results) == 1 {
				if rc := callOf10(info, rs.Results[0], c15Expr); rc != nil && len(rc.Args) == 2 && core.ObjOf(info, rc.Args[0]) == nameP {
					if se, _ := ast.Unparen(rc.Args[1]).(*ast.SelectorExpr); se != nil && core.FieldOf(info, se) == innerF && core.ObjOf(info, se.X) == paren.Bound {
						okRet = true
					}
				}
			}
			good = good && okRet
		}
		r.Check(good, rule, f.String(), "paren-recursion", p.Pos(paren.Clause.Pos()), "a parenthesised expression evaluates to the evaluation of its inner expression")
	}
}

// ---------------------------------------------------------------- (2) literal-type dispatch and key/value orientation

func (c *c15ctx) binaryDispatch() {
	const rule = "binary-dispatch"
	r, p := c.r, c.p
	f := r.Need(p, tsdbP, "IndexSet.seriesByBinaryExprIterator")
	if f == nil {
		return
	}
	info, g := f.Info(), f.Graph()
	nameP, nP := f.Param(0), f.Param(1)
	opF := core.LookupField(c.iq, "BinaryExpr", "Op")
	lhsF := core.LookupField(c.iq, "BinaryExpr", "LHS")
	rhsF := core.LookupField(c.iq, "BinaryExpr", "RHS")
	varRefVal := core.LookupField(c.iq, "VarRef", "Val")
	want := map[string]struct {
		helper string
		valF   *types.Var
	}{
		"influxql.StringLiteral": {"tsdb.IndexSet.seriesByBinaryExprStringIterator", core.LookupField(c.iq, "StringLiteral", "Val")},
		"influxql.RegexLiteral":  {"tsdb.IndexSet.seriesByBinaryExprRegexIterator", core.LookupField(c.iq, "RegexLiteral", "Val")},
		"influxql.VarRef":        {"tsdb.IndexSet.seriesByBinaryExprVarRefIterator", nil},
	}
	var sw *core.TypeSwitch10
	for _, s := range core.TypeSwitches10(info, f.Decl.Body) {
		for _, a := range s.Arms {
			for _, t := range a.Types {
				if core.NamedName10(t) == "influxql.StringLiteral" {
					sw = s
				}
			}
		}
	}
	if !r.Check(sw != nil, rule, f.String(), "value-switch:absent", f.Pos(), "type switch over the literal kind of the compared value") {
		return
	}
	valueVar := core.ObjOf(info, sw.Operand)
	var keyVar types.Object
	seen := map[string]bool{}
	for _, a := range sw.Arms {
		for _, t := range a.Types {
			tn := core.NamedName10(t)
			w, ok := want[tn]
			if !ok {
				continue
			}
			seen[tn] = true
			rets := core.ReturnsOf10(a.Clause)
			good := len(rets) == 1 && len(rets[0].Results) == 1
			detail := "returns " + strings.TrimPrefix(w.helper, "tsdb.IndexSet.") + "(name, key.Val, value, n.Op)"
			if good {
				hc := callOf10(info, rets[0].Results[0], w.helper)
				good = hc != nil && len(hc.Args) == 4 && core.ObjOf(info, hc.Args[0]) == nameP
				if good {
					// key: []byte(key.Val)
					ks, _ := core.StripConv(info, hc.Args[1]).(*ast.SelectorExpr)
					if ks == nil || core.FieldOf(info, ks) != varRefVal || core.ObjOf(info, ks.X) == nil {
						good = false
					} else {
						kv := core.ObjOf(info, ks.X)
						if keyVar != nil && kv != keyVar {
							good = false
						}
						keyVar = kv
					}
					// value
					if w.valF != nil {
						vs, _ := core.StripConv(info, hc.Args[2]).(*ast.SelectorExpr)
						if vs == nil || core.FieldOf(info, vs) != w.valF || core.ObjOf(info, vs.X) != a.Bound {
							good = false
						}
					} else if core.ObjOf(info, hc.Args[2]) != a.Bound || a.Bound == nil {
						good = false
					}
					// operator
					os, _ := ast.Unparen(hc.Args[3]).(*ast.SelectorExpr)
					if os == nil || core.FieldOf(info, os) != opF || core.ObjOf(info, os.X) != nP {
						good = false
					}
				}
			}
			r.Check(good, rule, f.String(), "arm:"+tn, p.Pos(a.Clause.Pos()), detail)
		}
	}
	for tn := range want {
		if !seen[tn] {
			r.Bad(rule, f.String(), "arm:"+tn+":absent", p.Pos(sw.Stmt.Pos()), "no arm for this literal kind")
		}
	}
	// orientation: (key from n.LHS, value = n.RHS) or (key from n.RHS, value = n.LHS)
	at := g.NodeOf(sw.Stmt.Assign)
	if !r.Check(keyVar != nil && valueVar != nil && at != nil, rule, f.String(), "orientation:unresolved", p.Pos(sw.Stmt.Pos()), "key and value variables of the dispatch resolved") {
		return
	}
	sideOf := func(n *core.Node, obj types.Object) *types.Var {
		if n == nil {
			return nil
		}
		as, ok := n.N.(*ast.AssignStmt)
		if !ok {
			return nil
		}
		for i, l := range as.Lhs {
			if core.ObjOf(info, l) != obj {
				continue
			}
			var rhs ast.Expr
			if len(as.Rhs) == len(as.Lhs) {
				rhs = as.Rhs[i]
			} else if len(as.Rhs) == 1 && i == 0 {
				rhs = as.Rhs[0]
			}
			if rhs == nil {
				return nil
			}
			rhs = ast.Unparen(rhs)
			if ta, ok := rhs.(*ast.TypeAssertExpr); ok {
				rhs = ast.Unparen(ta.X)
			}
			se, _ := rhs.(*ast.SelectorExpr)
			if se == nil || core.ObjOf(info, se.X) != nP {
				return nil
			}
			return core.FieldOf(info, se)
		}
		return nil
	}
	states := g.DefStates10([]types.Object{keyVar, valueVar}, at)
	orient := map[string]bool{}
	okAll := len(states) > 0
	for _, st := range states {
		k, v := sideOf(st[0], keyVar), sideOf(st[1], valueVar)
		switch {
		case k == lhsF && v == rhsF:
			orient["key=LHS,value=RHS"] = true
		case k == rhsF && v == lhsF:
			orient["key=RHS,value=LHS"] = true
		default:
			okAll = false
			r.Bad(rule, f.String(), "orientation", g.Line(st[0]), fmt.Sprintf("a path reaches the dispatch with key defined at %s and value defined at %s: not opposite sides of the comparison", g.Line(st[0]), g.Line(st[1])))
		}
	}
	if okAll {
		r.Check(len(orient) == 2, rule, f.String(), "orientation", g.Line(at), fmt.Sprintf("tag key and compared value are always opposite sides of the comparison; both orientations reach the dispatch (%d of 2)", len(orient)))
	}
}

// ---------------------------------------------------------------- (3) string comparison table

func (c *c15ctx) stringTable() {
	const rule = "string-op-table"
	r, p := c.r, c.p
	f := r.Need(p, tsdbP, "IndexSet.seriesByBinaryExprStringIterator")
	if f == nil {
		return
	}
	info, g := f.Info(), f.Graph()
	nameP, keyP, valP, opP := f.Param(0), f.Param(1), f.Param(2), f.Param(3)
	isName := func(v bool) core.Leaf10 {
		return core.CallLeaf10(info, call("bytes.Equal"), func(cl *ast.CallExpr) bool { return core.Mentions(info, cl, keyP) }, v)
	}
	valueIsName := func(v bool) core.Leaf10 {
		return core.CallLeaf10(info, call("bytes.Equal"), func(cl *ast.CallExpr) bool {
			return core.Mentions(info, cl, valP) && core.Mentions(info, cl, nameP) && !core.Mentions(info, cl, keyP)
		}, v)
	}
	opIs := func(op string) core.Leaf10 { return core.ConstEqLeaf10(info, isParam10(info, opP), c.tok(op)) }
	lenIs := func(n int64) core.Leaf10 { return core.LenLeaf10(info, isParam10(info, valP), n) }
	argsAre := func(cl *ast.CallExpr, ps ...*types.Var) bool {
		if cl == nil || len(cl.Args) != len(ps) {
			return false
		}
		for i, a := range cl.Args {
			if core.ObjOf(info, a) != ps[i] {
				return false
			}
		}
		return true
	}
	type row struct {
		label   string
		leaf    core.Leaf10
		calls   []string // reachable set constructions
		result  string   // callee of the returned expression ("" = nil)
		subtrah string   // for differences: producer of the subtrahend
	}
	rows := []row{
		{"tag = 'v'", core.Leaves10(isName(false), opIs("EQ"), lenIs(1)), []string{c15Val}, c15Val, ""},
		{"tag = ''", core.Leaves10(isName(false), opIs("EQ"), lenIs(0)), []string{c15Meas, c15Key, c15Diff}, c15Diff, c15Key},
		{"tag != 'v'", core.Leaves10(isName(false), opIs("NEQ"), lenIs(1)), []string{c15Meas, c15Val, c15Diff}, c15Diff, c15Val},
		{"tag != ''", core.Leaves10(isName(false), opIs("NEQ"), lenIs(0)), []string{c15Key}, c15Key, ""},
		{"_name = name", core.Leaves10(isName(true), opIs("EQ"), valueIsName(true)), []string{c15Meas}, c15Meas, ""},
		{"_name = other", core.Leaves10(isName(true), opIs("EQ"), valueIsName(false)), nil, "", ""},
		{"_name != name", core.Leaves10(isName(true), opIs("NEQ"), valueIsName(true)), nil, "", ""},
		{"_name != other", core.Leaves10(isName(true), opIs("NEQ"), valueIsName(false)), []string{c15Meas}, c15Meas, ""},
	}
	for _, rw := range rows {
		reach := g.ReachUnder10([]*core.Node{g.Entry}, nil, rw.leaf)
		names, calls := g.CallsReached10(reach, c15SetCalls)
		ok := r.Check(sameSet10(names, rw.calls), rule, f.String(), "row:"+rw.label+":calls", f.Pos(),
			fmt.Sprintf("%s builds exactly %s (found %s)", rw.label, setStr10(rw.calls), setStr10(names)))
		// what is returned on success
		rets := successReturns10(g, reach)
		good := len(rets) >= 1
		for _, rs := range rets {
			if len(rs.Results) == 0 {
				good = false
				continue
			}
			if rw.result == "" {
				good = good && core.IsNilIdent(info, rs.Results[0])
			} else {
				good = good && callOf10(info, rs.Results[0], rw.result) != nil
			}
		}
		want := "nil (no series)"
		if rw.result != "" {
			want = setStr10([]string{rw.result})
		}
		r.Check(good, rule, f.String(), "row:"+rw.label+":result", f.Pos(), fmt.Sprintf("%s returns %s on every success path (%d)", rw.label, want, len(rets)))
		if !ok {
			continue
		}
		// operands
		for _, cl := range calls {
			switch core.FName(core.Callee(info, cl)) {
			case c15Val:
				r.Check(argsAre(cl, nameP, keyP, valP), rule, f.String(), "row:"+rw.label+":tagValue-args", p.Pos(cl.Pos()), "series of exactly (name, key, value)")
			case c15Key:
				r.Check(argsAre(cl, nameP, keyP), rule, f.String(), "row:"+rw.label+":tagKey-args", p.Pos(cl.Pos()), "series having (name, key)")
			case c15Meas:
				r.Check(argsAre(cl, nameP), rule, f.String(), "row:"+rw.label+":measurement-args", p.Pos(cl.Pos()), "all series of the measurement")
			case c15Diff:
				good := len(cl.Args) == 2
				if good {
					a, b := defCall10(info, f.Decl.Body, cl.Args[0]), defCall10(info, f.Decl.Body, cl.Args[1])
					good = a != nil && b != nil && core.FName(core.Callee(info, a)) == c15Meas && core.FName(core.Callee(info, b)) == rw.subtrah
				}
				r.Check(good, rule, f.String(), "row:"+rw.label+":difference-operands", p.Pos(cl.Pos()),
					"difference is (all series of the measurement) minus "+setStr10([]string{rw.subtrah}))
			}
		}
	}
}

// ---------------------------------------------------------------- (4) regex operator

func (c *c15ctx) regexTable() {
	const rule = "regex-op-table"
	r, p := c.r, c.p
	f := r.Need(p, tsdbP, "IndexSet.seriesByBinaryExprRegexIterator")
	if f == nil {
		return
	}
	info, g := f.Info(), f.Graph()
	nameP, keyP, valP, opP := f.Param(0), f.Param(1), f.Param(2), f.Param(3)
	notName := core.CallLeaf10(info, call("bytes.Equal"), func(cl *ast.CallExpr) bool { return core.Mentions(info, cl, keyP) }, false)
	reach := g.ReachUnder10([]*core.Node{g.Entry}, nil, notName)
	rets := successReturns10(g, reach)
	if !r.Check(len(rets) >= 1, rule, f.String(), "tag-path:absent", f.Pos(), "a success path for a real tag key exists") {
		return
	}
	for _, rs := range rets {
		var mc *ast.CallExpr
		if len(rs.Results) == 1 {
			mc = callOf10(info, rs.Results[0], c15Match)
		}
		if !r.Check(mc != nil && len(mc.Args) == 4 && core.ObjOf(info, mc.Args[0]) == nameP && core.ObjOf(info, mc.Args[1]) == keyP && core.ObjOf(info, mc.Args[2]) == valP,
			rule, f.String(), "delegates", p.Pos(rs.Pos()), "a regex comparison on a tag returns matchTagValueSeriesIDIterator(name, key, value, …)") {
			continue
		}
		arg := core.ResolveLocal(info, f.Decl.Body, mc.Args[3])
		for _, row := range []struct {
			op   string
			want bool
		}{{"EQREGEX", true}, {"NEQREGEX", false}} {
			v, known := core.EvalCond(arg, core.LeafEval(core.ConstEqLeaf10(info, isParam10(info, opP), c.tok(row.op))))
			r.Check(known && v == row.want, rule, f.String(), "matches-arg:op="+row.op, p.Pos(mc.Args[3].Pos()),
				fmt.Sprintf("the `matches` argument is %v when op == %s (decided=%v)", row.want, row.op, known))
		}
	}
}

// ---------------------------------------------------------------- (5) tag = tag

func (c *c15ctx) varRefTable() {
	const rule = "varref-op-table"
	r, p := c.r, c.p
	f := r.Need(p, tsdbP, "IndexSet.seriesByBinaryExprVarRefIterator")
	if f == nil {
		return
	}
	info, g := f.Info(), f.Graph()
	nameP, keyP, valP, opP := f.Param(0), f.Param(1), f.Param(2), f.Param(3)
	// producer classification: tagKey iterator of the key / of the referenced tag
	side := func(e ast.Expr) string {
		d := defCall10(info, f.Decl.Body, e)
		if d == nil || core.FName(core.Callee(info, d)) != c15Key || len(d.Args) != 2 || core.ObjOf(info, d.Args[0]) != nameP {
			return ""
		}
		switch {
		case core.ObjOf(info, d.Args[1]) == keyP:
			return "key"
		case core.Mentions(info, d.Args[1], valP) && !core.Mentions(info, d.Args[1], keyP):
			return "ref"
		}
		return ""
	}
	for _, row := range []struct{ op, want string }{{"EQ", c15Inter}, {"NEQ", c15Diff}} {
		reach := g.ReachUnder10([]*core.Node{g.Entry}, nil, core.ConstEqLeaf10(info, isParam10(info, opP), c.tok(row.op)))
		names, _ := g.CallsReached10(reach, call(c15Inter, c15Union, c15Diff, c15Merge))
		r.Check(sameSet10(names, []string{row.want}), rule, f.String(), "op="+row.op, f.Pos(),
			fmt.Sprintf("tag %s tag builds exactly %s (found %s)", row.op, setStr10([]string{row.want}), setStr10(names)))
		rets := successReturns10(g, reach)
		good := len(rets) >= 1
		for _, rs := range rets {
			var cc *ast.CallExpr
			if len(rs.Results) >= 1 {
				cc = callOf10(info, rs.Results[0], row.want)
			}
			if cc == nil || len(cc.Args) != 2 {
				good = false
				continue
			}
			a, b := side(cc.Args[0]), side(cc.Args[1])
			if row.op == "EQ" {
				good = good && ((a == "key" && b == "ref") || (a == "ref" && b == "key"))
			} else {
				good = good && a == "key" && b == "ref"
			}
		}
		r.Check(good, rule, f.String(), "op="+row.op+":operands", f.Pos(), "operands are the series having the key and the series having the referenced tag (in that order for the difference)")
	}
}

// ---------------------------------------------------------------- (6)+(7) regex 2x2 and helper shapes

func (c *c15ctx) regex2x2() {
	const rule = "regex-2x2"
	r, p := c.r, c.p
	f := r.Need(p, tsdbP, "IndexSet.matchTagValueSeriesIDIterator")
	if f == nil {
		return
	}
	info, g := f.Info(), f.Graph()
	nameP, keyP, valP, matchesP := f.Param(0), f.Param(1), f.Param(2), f.Param(3)
	// matchEmpty := value.MatchString("")
	var me types.Object
	ast.Inspect(f.Decl.Body, func(n ast.Node) bool {
		as, ok := n.(*ast.AssignStmt)
		if !ok || len(as.Lhs) != 1 || len(as.Rhs) != 1 {
			return true
		}
		cl, ok := ast.Unparen(as.Rhs[0]).(*ast.CallExpr)
		if !ok || core.FName(core.Callee(info, cl)) != "regexp.Regexp.MatchString" || len(cl.Args) != 1 {
			return true
		}
		v := core.ConstVal(info, cl.Args[0])
		if v == nil || v.Kind() != constant.String || constant.StringVal(v) != "" || core.ObjOf(info, core.Recv(cl)) != valP {
			return true
		}
		if o := core.ObjOf(info, as.Lhs[0]); o != nil {
			if _, single := core.SingleDef(info, f.Decl.Body, o); single {
				me = o
			}
		}
		return true
	})
	if !r.Check(me != nil, rule, f.String(), "matchEmpty:absent", f.Pos(), "a flag is computed once as value.MatchString(\"\") (does the regex match an absent tag?)") {
		return
	}
	helpers := map[*types.Func]string{}
	for _, matches := range []bool{true, false} {
		for _, empty := range []bool{true, false} {
			label := fmt.Sprintf("matches=%v,matchEmpty=%v", matches, empty)
			reach := g.ReachUnder10([]*core.Node{g.Entry}, nil, core.Leaves10(core.ObjLeaf10(info, matchesP, matches), core.ObjLeaf10(info, me, empty)))
			rets := successReturns10(g, reach)
			var hc *ast.CallExpr
			if len(rets) == 1 && len(rets[0].Results) == 1 {
				hc, _ = ast.Unparen(rets[0].Results[0]).(*ast.CallExpr)
			}
			var hf *core.Func
			if hc != nil {
				hf = p.FuncOf(core.Callee(info, hc))
			}
			good := hf != nil && len(hc.Args) == 3 && core.ObjOf(info, hc.Args[0]) == nameP && core.ObjOf(info, hc.Args[1]) == keyP && core.ObjOf(info, hc.Args[2]) == valP
			if !r.Check(good, rule, f.String(), "row:"+label, f.Pos(), fmt.Sprintf("exactly one success exit, returning a helper applied to (name, key, value) (%d exits)", len(rets))) {
				continue
			}
			if prev, dup := helpers[hf.Obj]; dup {
				r.Bad(rule, f.String(), "row:"+label+":distinct", p.Pos(hc.Pos()), "same helper as row "+prev)
			}
			helpers[hf.Obj] = label
			complement := matches == empty
			polarity := matches != complement
			c.helperShape(hf, label, polarity, complement)
		}
	}
	r.Check(len(helpers) == 4, rule, f.String(), "distinct-helpers", f.Pos(), fmt.Sprintf("the 2x2 table selects %d distinct helpers (4 required)", len(helpers)))
}

// directCall: the call appears in node n itself (not inside a nested function literal).
func directCalls10(info *types.Info, n ast.Node, m core.Matcher) []*ast.CallExpr {
	var out []*ast.CallExpr
	ast.Inspect(n, func(x ast.Node) bool {
		switch y := x.(type) {
		case *ast.FuncLit:
			return false
		case *ast.CallExpr:
			if m(info, y) {
				out = append(out, y)
			}
		}
		return true
	})
	return out
}

// helperShape decides, by shape, that helper hf collects the tag values on which
// value.Match(e) == polarity and returns either their merge (plain) or the
// measurement's series minus their merge (complement).
func (c *c15ctx) helperShape(hf *core.Func, label string, polarity, complement bool) {
	const rule = "regex-helper-shape"
	r, p := c.r, c.p
	r.Saw(hf)
	info := hf.Info()
	nameP, keyP, valP := hf.Param(0), hf.Param(1), hf.Param(2)
	construct := hf.String() + "[" + label + "]"
	body := hf.Decl.Body
	// the value iterator and the per-value loop variable
	var vitr, ev types.Object
	for _, cl := range core.AllCalls(info, body, call("tsdb.IndexSet.tagValueIterator")) {
		if len(cl.Args) == 2 && core.ObjOf(info, cl.Args[0]) == nameP && core.ObjOf(info, cl.Args[1]) == keyP {
			ast.Inspect(body, func(n ast.Node) bool {
				if as, ok := n.(*ast.AssignStmt); ok && len(as.Rhs) == 1 && ast.Unparen(as.Rhs[0]) == ast.Expr(cl) && len(as.Lhs) == 2 {
					vitr = core.ObjOf(info, as.Lhs[0])
				}
				return true
			})
		}
	}
	if !r.Check(vitr != nil, rule, construct, "value-iterator:absent", hf.Pos(), "iterates the values of (name, key) via tagValueIterator") {
		return
	}
	ast.Inspect(body, func(n ast.Node) bool {
		as, ok := n.(*ast.AssignStmt)
		if !ok || len(as.Rhs) != 1 || len(as.Lhs) != 2 {
			return true
		}
		cl, ok := ast.Unparen(as.Rhs[0]).(*ast.CallExpr)
		if ok && strings.HasSuffix(core.FName(core.Callee(info, cl)), "TagValueIterator.Next") && core.ObjOf(info, core.Recv(cl)) == vitr {
			ev = core.ObjOf(info, as.Lhs[0])
		}
		return true
	})
	if !r.Check(ev != nil, rule, construct, "value-loop:absent", hf.Pos(), "each value is obtained from the iterator's Next") {
		return
	}
	// polarity of the collection
	isMatch := func(x ast.Expr, val bool, want bool) bool {
		cl, ok := ast.Unparen(x).(*ast.CallExpr)
		return ok && val == want && core.FName(core.Callee(info, cl)) == "regexp.Regexp.Match" && len(cl.Args) == 1 &&
			core.ObjOf(info, cl.Args[0]) == ev && core.ObjOf(info, core.Recv(cl)) == valP
	}
	sites, goodPol := 0, true
	var itrs types.Object
	for _, g := range hf.Graphs() {
		for _, n := range g.Nodes {
			if n.N == nil {
				continue
			}
			for _, cl := range directCalls10(info, n.N, call(c15Val)) {
				sites++
				if len(cl.Args) != 3 || core.ObjOf(info, cl.Args[0]) != nameP || core.ObjOf(info, cl.Args[1]) != keyP || core.ObjOf(info, cl.Args[2]) != ev {
					goodPol = false
					r.Bad(rule, construct, "collect-args", p.Pos(cl.Pos()), "collected series are those of (name, key, e) for the current value e")
					continue
				}
				onlyVia := func(want bool) bool {
					return !g.ReachFromEntry(nil, core.AtomEdge(func(x ast.Expr, val bool) bool { return isMatch(x, val, want) }))[n]
				}
				t, fls := onlyVia(true), onlyVia(false)
				if !(t != fls) {
					goodPol = false
					r.Bad(rule, construct, "collect-guard", g.Line(n), "collection of a value's series is not controlled by exactly one outcome of value.Match(e)")
					continue
				}
				if t != polarity {
					goodPol = false
					r.Bad(rule, construct, "collect-polarity", g.Line(n), fmt.Sprintf("collects the values on which value.Match(e) is %v; the semantics of this table row need %v", t, polarity))
				}
				// the collected iterator is appended to the accumulator
				as, _ := n.N.(*ast.AssignStmt)
				var itrV types.Object
				if as != nil && len(as.Lhs) == 2 {
					itrV = core.ObjOf(info, as.Lhs[0])
				}
				appended := false
				for _, ap := range core.AllCalls(info, body, core.Builtin("append")) {
					if len(ap.Args) == 2 && itrV != nil && core.ObjOf(info, ap.Args[1]) == itrV {
						appended = true
						itrs = core.ObjOf(info, ap.Args[0])
					}
				}
				if !appended {
					goodPol = false
					r.Bad(rule, construct, "collect-append", g.Line(n), "the series iterator of a selected value is not appended to the accumulated set")
				}
			}
		}
	}
	if sites == 0 {
		r.Bad(rule, construct, "collect:absent", hf.Pos(), "no tagValueSeriesIDIterator(name, key, e) collection")
		return
	}
	if goodPol {
		r.Ok(rule, construct+":polarity", hf.Pos(), fmt.Sprintf("collects the series of the values e with value.Match(e) == %v (%d site)", polarity, sites))
	}
	// result form
	g := hf.Graph()
	isVitr := func(e ast.Expr) bool { return core.ObjOf(info, e) == vitr }
	withValues := g.ReachFromEntry(nil, g.NilEdge(isVitr, true))
	mergeOf := func(e ast.Expr) bool {
		mc := callOf10(info, e, c15Merge)
		return mc != nil && len(mc.Args) == 1 && mc.Ellipsis.IsValid() && itrs != nil && core.ObjOf(info, mc.Args[0]) == itrs
	}
	nFinal, nEmpty, goodRes := 0, 0, true
	for _, x := range g.SuccessExits() {
		rs, ok := x.N.(*ast.ReturnStmt)
		if !ok || len(rs.Results) == 0 {
			goodRes = false
			r.Bad(rule, construct, "result-form", g.Line(x), "success exit without an explicit result")
			continue
		}
		res := rs.Results[0]
		if withValues[x] {
			nFinal++
			var form string
			switch {
			case mergeOf(res):
				form = "plain"
			default:
				if dc := callOf10(info, res, c15Diff); dc != nil && len(dc.Args) == 2 && mergeOf(dc.Args[1]) {
					if m := defCall10(info, body, dc.Args[0]); m != nil && core.FName(core.Callee(info, m)) == c15Meas && len(m.Args) == 1 && core.ObjOf(info, m.Args[0]) == nameP {
						form = "complement"
					}
				}
			}
			want := "plain"
			if complement {
				want = "complement"
			}
			if form != want {
				goodRes = false
				r.Bad(rule, construct, "result-form", g.Line(x), fmt.Sprintf("result is %q; this table row needs %s (plain = merge of the collected series, complement = measurement series minus that merge)", form, want))
			}
		} else {
			nEmpty++
			// the key has no values at all
			if complement {
				mc := callOf10(info, res, c15Meas)
				if mc == nil || len(mc.Args) != 1 || core.ObjOf(info, mc.Args[0]) != nameP {
					goodRes = false
					r.Bad(rule, construct, "no-values-result", g.Line(x), "when the key has no values every series lacks the tag, and an absent tag matches here: all series of the measurement must be returned")
				}
			} else if !core.IsNilIdent(info, res) {
				goodRes = false
				r.Bad(rule, construct, "no-values-result", g.Line(x), "when the key has no values no series can match here: nil must be returned")
			}
		}
	}
	if nFinal == 0 || nEmpty == 0 {
		goodRes = false
		r.Bad(rule, construct, "result-exits:absent", hf.Pos(), fmt.Sprintf("%d result exits and %d no-values exits found (>= 1 each)", nFinal, nEmpty))
	}
	if goodRes {
		form := "merge(collected)"
		if complement {
			form = "measurement \\ merge(collected), everything when the key has no values"
		}
		r.Ok(rule, construct+":result", hf.Pos(), "returns "+form)
	}
}

// ---------------------------------------------------------------- (8) entry chain

func (c *c15ctx) entryChain() {
	const rule = "entry-chain"
	r, p := c.r, c.p
	if f := r.Need(p, tsdbP, "IndexSet.measurementSeriesByExprIterator"); f != nil {
		info, g := f.Info(), f.Graph()
		core.RuleMustPass(r, f, rule, "FilterUndeletedSeriesIDIterator", call("tsdb.FilterUndeletedSeriesIDIterator"), false)
		exprP := f.Param(1)
		reach := g.ReachUnder10([]*core.Node{g.Entry}, nil, func(e ast.Expr) (bool, bool) {
			x, nonNilOnTrue, ok := core.NilTest(info, e)
			if ok && core.ObjOf(info, x) == exprP {
				return nonNilOnTrue, true // expr != nil
			}
			return false, false
		})
		names, calls := g.CallsReached10(reach, call(c15Expr, c15Meas))
		good := sameSet10(names, []string{c15Expr})
		for _, cl := range calls {
			good = good && len(cl.Args) == 2 && core.ObjOf(info, cl.Args[0]) == f.Param(0) && core.ObjOf(info, cl.Args[1]) == exprP
		}
		r.Check(good, rule, f.String(), "expr-evaluated", f.Pos(), "a non-nil expression is evaluated by seriesByExprIterator(name, expr) and never replaced by the unfiltered measurement series")
	}
	if f := r.Need(p, tsdbP, "IndexSet.MeasurementSeriesByExprIterator"); f != nil {
		core.RuleMustPass(r, f, rule, "measurementSeriesByExprIterator", call("tsdb.IndexSet.measurementSeriesByExprIterator"), false)
	}
}
