package rules

import (
	"fmt"
	"go/ast"
	"go/token"
	"go/types"
	"math"

	"verif/checker/core"
)

// C09 strengthening (m2): survivor-driven rules. Every rule is a condition on
// resolved callees / fields / parameters and on which facts the CFG edges
// establish; none looks at names of locals or at the shape of a statement.

func init() {
	extend("C09", "lock-balance: every Lock/RLock of Cache.mu, entry.mu and partition.mu is released on every path before the function returns or re-acquires it; "+
		"the size-limit rejection of WriteMulti lies behind edges that establish `limit enabled` and `new size > limit`; the key length is accounted exactly on the new-key result of store.write; "+
		"Cache.Snapshot: the in-progress branch never swaps nor succeeds, the flag is set before the swap, the snapshot object is only created when absent and the stores are only swapped when the pending snapshot is empty; "+
		"ClearSnapshot resets the snapshot store exactly on success, renews the snapshot object and clears the in-progress flag; "+
		"entry.add / newEntryValues: the conflict is returned on the inequality of types, the type test can only be skipped for empty input or an untyped entry, the given values reach entry.values and the entry type is recorded; "+
		"partition.write adds to an entry only where it is known non-nil; "+
		"Cache.Values consults the snapshot unless it is nil, merges each of the two entries unless that entry is nil and returns nil only when both are absent or the counted total is zero; "+
		"Cache.DeleteRange visits every key, mutates every present entry and removes a key only for the full range or when the filtered entry is empty.",
		nil, runC09m2)
}

func runC09m2(p *core.Prog, r *core.Report, tier string) {
	pk := p.Pkg(tsm1)
	if pk == nil {
		return
	}
	m2LockBalance(p, r, pk.Types)
	m2WriteMulti(p, r, pk.Types)
	m2Snapshot(p, r, pk.Types)
	m2ClearSnapshot(p, r, pk.Types)
	m2EntryTyping(p, r, pk.Types)
	m2PartitionWrite(p, r)
	m2CacheValues(p, r, pk.Types)
	m2DeleteRange(p, r)
}

// ---------------------------------------------------------------- lock balance

func m2LockBalance(p *core.Prog, r *core.Report, tp *types.Package) {
	const rule = "lock-balance"
	total := 0
	for _, tf := range [][2]string{{"Cache", "mu"}, {"entry", "mu"}, {"partition", "mu"}} {
		mu := core.LookupField(tp, tf[0], tf[1])
		if !r.Check(mu != nil, rule, tf[0]+"."+tf[1], "mutex:absent", "-", "mutex field found") {
			continue
		}
		for _, f := range p.Funcs(tsm1) {
			if f.Decl.Body == nil {
				continue
			}
			for _, g := range f.Graphs() {
				n, bad := g.LockBalanceM2(mu)
				total += n
				if n == 0 {
					continue
				}
				for _, b := range bad {
					what := tf[0] + "." + tf[1] + "-held-at-exit"
					detail := tf[0] + "." + tf[1] + " acquired here is still held when the function returns at " + g.Line(b.At) + ": every later cache operation on it blocks for ever"
					if b.Kind == "re-acquired" {
						what = tf[0] + "." + tf[1] + "-re-acquired"
						detail = tf[0] + "." + tf[1] + " acquired here is taken again at " + g.Line(b.At) + " without a release in between (self-deadlock)"
					}
					r.Bad(rule, f.String(), what, g.Line(b.Lock), detail)
				}
				if len(bad) == 0 {
					r.Ok(rule, f.String(), g.Line(g.Entry), fmt.Sprintf("%d acquisition(s) of %s.%s, each released on every path", n, tf[0], tf[1]))
				}
			}
		}
	}
	r.Check(total >= 30, rule, tsm1, "acquisitions:count", "-", fmt.Sprintf("%d Lock/RLock sites of Cache.mu / entry.mu / partition.mu examined (>= 30 confirmed by reading)", total))
}

// ---------------------------------------------------------------- WriteMulti

func m2WriteMulti(p *core.Prog, r *core.Report, tp *types.Package) {
	f := p.Func(tsm1, "Cache.WriteMulti")
	if f == nil || f.Decl.Body == nil {
		return // reported by the base rules
	}
	g := f.Graph()
	info := f.Info()
	{
		const rule = "limit-reject-only-when-exceeded"
		maxSize := core.LookupField(tp, "Cache", "maxSize")
		isMax := core.DerivedFromM2(info, f.Decl.Body, func(e ast.Expr) bool {
			return maxSize != nil && core.FieldOf(info, e) == maxSize
		})
		isSize := core.DerivedFromM2(info, f.Decl.Body, func(e ast.Expr) bool {
			c, ok := e.(*ast.CallExpr)
			return ok && call("tsdb/engine/tsm1.Cache.Size")(info, c)
		})
		exceeded := m2Cmp(info, f.Decl.Body, func(l ast.Expr, op token.Token, rr ast.Expr) bool {
			return (op == token.GTR || op == token.GEQ) && isSize(l) && !isMax(l) && isMax(rr) && !isSize(rr)
		})
		enabled := m2Cmp(info, f.Decl.Body, func(l ast.Expr, op token.Token, rr ast.Expr) bool {
			c, ok := core.ConstInt(info, rr)
			if !ok || !isMax(l) || isSize(l) {
				return false
			}
			return (c == 0 && (op == token.GTR || op == token.NEQ)) || (c == 1 && op == token.GEQ)
		})
		for _, n := range g.Select(g.Calling(call("tsdb/engine/tsm1.ErrCacheMemorySizeLimitExceeded"))) {
			r.Check(g.OnlyThroughM2(nil, n, exceeded, nil), rule, f.String(), "reject-without-exceeding", g.Line(n),
				"the write is rejected only on edges that establish (current size + added size) > limit: a write that fits is stored")
			r.Check(g.OnlyThroughM2(nil, n, enabled, nil), rule, f.String(), "reject-with-limit-disabled", g.Line(n),
				"the write is rejected only on edges that establish limit > 0 (0 = unlimited)")
		}
	}
	{
		const rule = "key-length-iff-new-key"
		inc := g.Calling(call("tsdb/engine/tsm1.Cache.increaseSize"))
		nInc := 0
		for _, w := range g.Select(g.Calling(call("tsdb/engine/tsm1.storer.write"))) {
			var nk types.Object
			if as, ok := w.N.(*ast.AssignStmt); ok && len(as.Lhs) == 2 && len(as.Rhs) == 1 {
				nk = core.ObjOf(info, as.Lhs[0])
			}
			if !r.Check(nk != nil && nk.Name() != "_", rule, f.String(), "new-key-result-dropped", g.Line(w), "the new-key result of store.write is kept") {
				continue
			}
			isW := func(n *core.Node) bool { return n == w }
			onNew := m2Est(info, f.Decl.Body, core.BoolVarFact(info, nk, true))
			inIter := g.Reach(core.After(w, nil), isW, nil)
			for _, n := range g.Select(inc) {
				if !inIter[n] || !g.Reach(core.After(n, nil), nil, nil)[w] {
					continue // not part of the write loop
				}
				nInc++
				r.Check(g.OnlyThroughM2(core.After(w, nil), n, onNew, isW), rule, f.String(), "key-length-added-without-new-key", g.Line(n),
					"inside the write loop the size grows (by the key length) only on edges that establish that store.write created the key")
			}
		}
		r.Check(nInc >= 1, rule, f.String(), "key-length-accounting:absent", f.Pos(), "the key length of a newly created key is added to the size")
	}
}

// ---------------------------------------------------------------- Snapshot / ClearSnapshot

func m2Snapshot(p *core.Prog, r *core.Report, tp *types.Package) {
	f := p.Func(tsm1, "Cache.Snapshot")
	if f == nil || f.Decl.Body == nil {
		return
	}
	const rule = "snapshot-guard"
	g := f.Graph()
	info := f.Info()
	fFlag := core.LookupField(tp, "Cache", "snapshotting")
	fSnap := core.LookupField(tp, "Cache", "snapshot")
	fStore := core.LookupField(tp, "Cache", "store")
	if fFlag == nil || fSnap == nil || fStore == nil {
		return
	}
	swaps := g.Select(g.Assigning(fStore))
	if len(swaps) == 0 {
		return // base rule reports swap:absent
	}
	isSwap := func(n *core.Node) bool {
		for _, s := range swaps {
			if s == n {
				return true
			}
		}
		return false
	}
	// (a) the in-progress branch neither swaps nor reports success
	inProgress := m2Est(info, f.Decl.Body, func(a ast.Expr, v bool) bool { return v && core.FieldOf(info, a) == fFlag })
	nEdges := 0
	success := map[*core.Node]bool{}
	for _, x := range g.SuccessExits() {
		success[x] = true
	}
	for _, n := range g.Nodes {
		for _, e := range n.Succ {
			if !inProgress(e) {
				continue
			}
			nEdges++
			reach := g.Reach([]*core.Node{e.To}, nil, nil)
			bad := ""
			for x := range reach {
				if isSwap(x) {
					bad = "swaps the stores"
				} else if success[x] && bad == "" {
					bad = "reports success at " + g.Line(x)
				}
			}
			r.Check(bad == "", rule, f.String(), "in-progress-branch-continues", g.Line(n), "while a snapshot is in progress Snapshot fails and leaves the stores alone "+bad)
		}
	}
	r.Check(nEdges >= 1, rule, f.String(), "in-progress-test:absent", f.Pos(), "Cache.snapshotting is tested")
	// (b) the flag is raised before the swap
	setFlag := func(n *core.Node) bool {
		as, ok := n.N.(*ast.AssignStmt)
		if !ok || len(as.Lhs) != len(as.Rhs) {
			return false
		}
		for i, l := range as.Lhs {
			if core.FieldOf(info, l) == fFlag && core.X1IsConstBool(info, as.Rhs[i], true) {
				return true
			}
		}
		return false
	}
	for _, s := range swaps {
		r.Check(!g.ReachFromEntry(setFlag, nil)[s], rule, f.String(), "swap-without-raising-flag", g.Line(s), "Cache.snapshotting is set to true on every path to the store swap")
	}
	// (c) the snapshot object is only created when there is none
	isSnapField := func(x ast.Expr) bool { return core.FieldOf(info, x) == fSnap }
	snapNil := m2Nil(info, f.Decl.Body, isSnapField, true)
	for _, n := range g.Select(g.Assigning(fSnap)) {
		r.Check(g.OnlyThroughM2(nil, n, snapNil, nil), rule, f.String(), "snapshot-object-overwritten", g.Line(n),
			"Cache.snapshot is assigned only on edges that establish it is nil (a pending, failed snapshot and its values are kept for the retry)")
	}
	// (d) the stores are swapped only when the pending snapshot is empty
	isSnapSize := func(x ast.Expr) bool {
		x = core.ResolveLocal(info, f.Decl.Body, x)
		c, ok := ast.Unparen(x).(*ast.CallExpr)
		if !ok || !call("tsdb/engine/tsm1.Cache.Size")(info, c) {
			return false
		}
		return isSnapField(core.RecvOfCallM2(c))
	}
	snapEmpty := m2Est(info, f.Decl.Body, func(a ast.Expr, v bool) bool { return core.CountZeroAtom5(info, a, v, isSnapSize) })
	for _, s := range swaps {
		r.Check(g.OnlyThroughM2(nil, s, snapEmpty, nil), rule, f.String(), "swap-over-pending-snapshot", g.Line(s),
			"the hot store is swapped into the snapshot only on edges that establish snapshot.Size() == 0 (otherwise the values of a failed snapshot would be reset)")
	}
}

func m2ClearSnapshot(p *core.Prog, r *core.Report, tp *types.Package) {
	f := p.Func(tsm1, "Cache.ClearSnapshot")
	if f == nil || f.Decl.Body == nil {
		return
	}
	const rule = "snapshot-clear"
	g := f.Graph()
	info := f.Info()
	sig := f.Obj.Type().(*types.Signature)
	if sig.Params().Len() < 1 {
		return
	}
	success := sig.Params().At(0)
	fFlag := core.LookupField(tp, "Cache", "snapshotting")
	fSnap := core.LookupField(tp, "Cache", "snapshot")
	fSize := core.LookupField(tp, "Cache", "size")
	fSnapSize := core.LookupField(tp, "Cache", "snapshotSize")
	onSuccess := m2Est(info, f.Decl.Body, core.BoolVarFact(info, success, true))
	onFailure := m2Est(info, f.Decl.Body, core.BoolVarFact(info, success, false))
	reset := g.Calling(call("tsdb/engine/tsm1.storer.reset"))
	resets := g.Select(reset)
	r.Check(len(resets) >= 1, rule, f.String(), "reset:absent", f.Pos(), "the flushed snapshot's store is reset")
	for _, n := range resets {
		r.Check(g.OnlyThroughM2(nil, n, onSuccess, nil), rule, f.String(), "reset-on-failure", g.Line(n),
			"the snapshot store is reset only on edges that establish success (after a failed flush the values stay readable and are retried)")
	}
	// assuming success (failure edges removed) every return passes …
	mustOnSuccess := func(what, detail string, gate core.NodePred) {
		x := core.NormalExitM2(g, g.ReachFromEntry(gate, onFailure))
		pos := f.Pos()
		if x != nil {
			pos = g.Line(x)
		}
		r.Check(x == nil, rule, f.String(), what, pos, detail)
	}
	mustOnSuccess("success-without-reset", "ClearSnapshot(true) resets the snapshot store on every path (its values are in a TSM file now and no longer accounted)", reset)
	atomicStoreTo := func(field *types.Var, viaSnap bool) core.NodePred {
		return func(n *core.Node) bool {
			if n.N == nil {
				return false
			}
			for _, c := range core.CallsIn(info, n.N, call("sync/atomic.StoreUint64"), core.WalkOpts{}) {
				if len(c.Args) != 2 {
					continue
				}
				u, ok := ast.Unparen(c.Args[0]).(*ast.UnaryExpr)
				if !ok || u.Op != token.AND || core.FieldOf(info, u.X) != field {
					continue
				}
				se := ast.Unparen(u.X).(*ast.SelectorExpr)
				if (core.FieldOf(info, se.X) == fSnap) == viaSnap {
					return true
				}
			}
			return false
		}
	}
	mustOnSuccess("success-without-renewing-snapshot", "ClearSnapshot(true) replaces the snapshot object (or zeroes its size): otherwise the next Snapshot sees a non-empty pending snapshot and never swaps again",
		core.AnyOf(g.Assigning(fSnap), atomicStoreTo(fSize, true)))
	mustOnSuccess("success-without-zeroing-snapshotSize", "ClearSnapshot(true) gives the snapshot's size back on every path", atomicStoreTo(fSnapSize, false))
	// the in-progress flag is lowered whatever the outcome
	x := core.NormalExitM2(g, g.ReachFromEntry(func(n *core.Node) bool {
		as, ok := n.N.(*ast.AssignStmt)
		if !ok || len(as.Lhs) != len(as.Rhs) {
			return false
		}
		for i, l := range as.Lhs {
			if core.FieldOf(info, l) == fFlag && core.X1IsConstBool(info, as.Rhs[i], false) {
				return true
			}
		}
		return false
	}, nil))
	r.Check(x == nil, rule, f.String(), "flag-not-lowered", f.Pos(), "Cache.snapshotting is set to false on every path (otherwise every later Snapshot reports in-progress and the cache only fills up)")
}

// ---------------------------------------------------------------- entry typing

func m2EntryTyping(p *core.Prog, r *core.Report, tp *types.Package) {
	fValues := core.LookupField(tp, "entry", "values")
	fVtype := core.LookupField(tp, "entry", "vtype")
	var errConflict types.Object
	if tk := p.Pkg(tsdbP); tk != nil {
		errConflict = tk.Types.Scope().Lookup("ErrFieldTypeConflict")
	}
	if fValues == nil || fVtype == nil || errConflict == nil {
		r.Bad("type-conflict", tsm1, "tables:unresolved", "-", "entry.values / entry.vtype / tsdb.ErrFieldTypeConflict not found")
		return
	}
	vt := call("tsdb/engine/tsm1.valueType")
	for _, name := range []string{"entry.add", "newEntryValues"} {
		f := p.Func(tsm1, name)
		if f == nil || f.Decl.Body == nil {
			continue
		}
		g := f.Graph()
		info := f.Info()
		sig := f.Obj.Type().(*types.Signature)
		if sig.Params().Len() < 1 {
			continue
		}
		param := sig.Params().At(0)
		isParam := func(x ast.Expr) bool { return core.ObjOf(info, x) == param }
		isVT := func(x ast.Expr) bool {
			c, ok := ast.Unparen(x).(*ast.CallExpr)
			return ok && vt(info, c)
		}
		// (a) conflict ⇔ inequality of types
		differs := m2Cmp(info, f.Decl.Body, func(l ast.Expr, op token.Token, rr ast.Expr) bool { return op == token.NEQ && isVT(l) })
		for _, x := range g.Exits {
			rs, ok := x.N.(*ast.ReturnStmt)
			if !ok {
				continue
			}
			isConflict := false
			for _, res := range rs.Results {
				if se, ok := ast.Unparen(res).(*ast.SelectorExpr); ok && info.Uses[se.Sel] == errConflict {
					isConflict = true
				}
			}
			if isConflict {
				r.Check(g.OnlyThroughM2(nil, x, differs, nil), "type-conflict", f.String(), "conflict-without-inequality", g.Line(x),
					"ErrFieldTypeConflict is returned only on edges that establish valueType(v) != expected type")
			}
		}
		// (b) the type test is passed unless the input is empty / the entry untyped
		cmpNode := func(n *core.Node) bool {
			e, ok := n.N.(ast.Expr)
			if !ok {
				return false
			}
			hit := false
			for _, a := range core.Atoms(e) {
				if be, ok := ast.Unparen(a).(*ast.BinaryExpr); ok && (be.Op == token.NEQ || be.Op == token.EQL) && (isVT(be.X) || isVT(be.Y)) {
					hit = true
				}
			}
			return hit
		}
		cmps := g.Select(cmpNode)
		// a range over the given values whose body holds the test: executing the loop is "tested"
		testLoop := g.X1Ranging(func(rs *ast.RangeStmt) bool {
			if !isParam(ast.Unparen(rs.X)) {
				return false
			}
			for _, c := range cmps {
				if core.InRegion(c, rs.Body) {
					return true
				}
			}
			return false
		})
		tested := core.AnyOf(cmpNode, testLoop)
		emptyIn := m2Empty(info, f.Decl.Body, isParam)
		untyped := m2Cmp(info, f.Decl.Body, func(l ast.Expr, op token.Token, rr ast.Expr) bool {
			c, ok := core.ConstInt(info, rr)
			return ok && c == 0 && op == token.EQL && core.FieldOf(info, l) == fVtype
		})
		carries := func(n *core.Node) bool {
			if n.N == nil {
				return false
			}
			hit := false
			core.Walk(n.N, core.WalkOpts{}, func(x ast.Node) bool {
				switch s := x.(type) {
				case *ast.AssignStmt:
					for i, l := range s.Lhs {
						if core.FieldOf(info, l) != fValues {
							continue
						}
						var rhs ast.Expr
						if len(s.Rhs) == len(s.Lhs) {
							rhs = s.Rhs[i]
						} else if len(s.Rhs) == 1 {
							rhs = s.Rhs[0]
						}
						if rhs != nil && core.MentionsOutsideLenM2(info, rhs, param) {
							hit = true
						}
					}
				case *ast.CompositeLit:
					for _, el := range s.Elts {
						if kv, ok := el.(*ast.KeyValueExpr); ok {
							if id, ok := kv.Key.(*ast.Ident); ok && info.Uses[id] == fValues && core.MentionsOutsideLenM2(info, kv.Value, param) {
								hit = true
							}
						}
					}
				}
				return true
			})
			return hit
		}
		const rule = "typed-values-stored"
		if name == "entry.add" {
			for _, s := range g.Select(g.Assigning(fValues)) {
				r.Check(!g.ReachFromEntry(tested, core.AnyEdge(emptyIn, untyped))[s], "type-conflict", f.String(), "store-without-type-test", g.Line(s),
					"values are stored only after the type test, which may be skipped only on edges that establish entry.vtype == 0 or empty input")
			}
		} else {
			x := firstSuccess(g, g.ReachFromEntry(tested, emptyIn))
			pos := f.Pos()
			if x != nil {
				pos = g.Line(x)
			}
			r.Check(x == nil, "type-conflict", f.String(), "success-without-type-test", pos, "a new entry is returned only after all values were compared with the first one's type (skipped only for empty input)")
		}
		// (c) the given values reach entry.values on every successful non-empty path
		x := firstSuccess(g, g.ReachFromEntry(carries, emptyIn))
		pos := f.Pos()
		if x != nil {
			pos = g.Line(x)
		}
		r.Check(x == nil, rule, f.String(), "success-without-storing-values", pos, "every successful return for non-empty input passes a store of the given values into entry.values (an acknowledged write is held)")
		// (d) the entry type is recorded
		typed := func(n *core.Node) bool {
			as, ok := n.N.(*ast.AssignStmt)
			if !ok || !g.Assigning(fVtype)(n) {
				return false
			}
			for _, rhs := range as.Rhs {
				if isVT(core.ResolveLocal(info, f.Decl.Body, rhs)) {
					return true
				}
			}
			return false
		}
		if name == "entry.add" {
			// (e) existing values are replaced (not extended) only when there are none
			noneHeld := m2Empty(info, f.Decl.Body, func(x ast.Expr) bool { return core.FieldOf(info, x) == fValues })
			for _, s := range g.Select(g.Assigning(fValues)) {
				as, ok := s.N.(*ast.AssignStmt)
				if !ok || len(as.Lhs) != len(as.Rhs) {
					continue
				}
				for i, l := range as.Lhs {
					if core.FieldOf(info, l) != fValues || core.X1MentionsField(info, as.Rhs[i], fValues) {
						continue // e.values = append(e.values, …) keeps what is held
					}
					r.Check(g.OnlyThroughM2(nil, s, noneHeld, nil), rule, f.String(), "held-values-overwritten", g.Line(s),
						"entry.values is replaced by the new values only on edges establishing len(entry.values) == 0; otherwise the new values are appended to the held ones")
				}
			}
			r.Check(len(g.Select(typed)) >= 1, rule, f.String(), "vtype-never-set", f.Pos(), "an entry that was empty records the type of its first values (later writes are compared with it)")
		} else {
			x := firstSuccess(g, g.ReachFromEntry(typed, emptyIn))
			pos := f.Pos()
			if x != nil {
				pos = g.Line(x)
			}
			r.Check(x == nil, rule, f.String(), "success-without-vtype", pos, "a new non-empty entry records the type of its values")
		}
	}
}

// m2Est selects the edges that establish fact, seeing through boolean temporaries.
func m2Est(info *types.Info, body ast.Node, fact core.CondFact) core.EdgePred {
	return core.EdgeEstablishing(core.TempsM2(info, body, fact))
}

// m2Empty selects the edges that establish len(x) == 0 for an x accepted by isX.
func m2Empty(info *types.Info, body ast.Node, isX func(ast.Expr) bool) core.EdgePred {
	return m2Est(info, body, func(a ast.Expr, v bool) bool {
		x, br, ok := core.EmptyOn(info, a)
		return ok && v == br && isX(x)
	})
}

// m2Nil selects the edges that establish x == nil (wantNil) / x != nil for an x accepted by isX.
func m2Nil(info *types.Info, body ast.Node, isX func(ast.Expr) bool, wantNil bool) core.EdgePred {
	return m2Est(info, body, func(a ast.Expr, v bool) bool {
		x, nonNilOnTrue, ok := core.NilTest(info, a)
		return ok && isX(x) && (v != nonNilOnTrue) == wantNil
	})
}

// m2NilObj is m2Nil for the variable obj.
func m2NilObj(info *types.Info, body ast.Node, obj types.Object, wantNil bool) core.EdgePred {
	return m2Nil(info, body, func(x ast.Expr) bool { return obj != nil && core.ObjOf(info, x) == obj }, wantNil)
}

// m2Cmp selects the edges that establish a comparison accepted by test.
func m2Cmp(info *types.Info, body ast.Node, test func(l ast.Expr, op token.Token, r ast.Expr) bool) core.EdgePred {
	return m2Est(info, body, core.CmpFact12(test))
}

func firstSuccess(g *core.Graph, reach map[*core.Node]bool) *core.Node {
	for _, x := range g.SuccessExits() {
		if reach[x] {
			return x
		}
	}
	return nil
}

// ---------------------------------------------------------------- partition.write

func m2PartitionWrite(p *core.Prog, r *core.Report) {
	const rule = "add-on-existing-entry"
	n := 0
	add := call("tsdb/engine/tsm1.entry.add")
	// every call of entry.add on a looked-up entry (a local variable), wherever the
	// get-or-create code lives (partition.write today)
	for _, f := range p.Funcs(tsm1) {
		if f.Decl.Body == nil {
			continue
		}
		info := f.Info()
		if len(core.AllCalls(info, f.Decl.Body, add)) == 0 {
			continue
		}
		g := f.Graph()
		for _, nd := range g.Select(g.Calling(add)) {
			for _, c := range core.CallsIn(info, nd.N, add, core.WalkOpts{}) {
				obj, ok := core.ObjOf(info, core.RecvOfCallM2(c)).(*types.Var)
				if !ok || obj.IsField() || obj == f.X1Recv() {
					continue
				}
				n++
				r.Check(g.OnlyThroughM2(nil, nd, m2NilObj(info, f.Decl.Body, obj, false), nil), rule, f.String(), "add-on-possibly-nil-entry", g.Line(nd),
					"entry.add is called on the looked-up entry only on edges that establish it is non-nil (a missing key takes the create path)")
			}
		}
	}
	r.Check(n >= 2, rule, tsm1, "add-sites:count", "-", fmt.Sprintf("%d entry.add sites on looked-up entries (fast path and re-check; >= 2 confirmed by reading)", n))
}

// ---------------------------------------------------------------- Cache.Values

func m2CacheValues(p *core.Prog, r *core.Report, tp *types.Package) {
	f := p.Func(tsm1, "Cache.Values")
	if f == nil || f.Decl.Body == nil {
		return
	}
	const rule = "values-merge-complete"
	g := f.Graph()
	info := f.Info()
	fSnap := core.LookupField(tp, "Cache", "snapshot")
	isSnapField := func(x ast.Expr) bool { return fSnap != nil && core.FieldOf(info, x) == fSnap }
	entryCall := call("tsdb/engine/tsm1.storer.entry")
	viaSnap := func(c *ast.CallExpr) bool {
		hit := false
		ast.Inspect(c.Fun, func(x ast.Node) bool {
			if e, ok := x.(ast.Expr); ok && isSnapField(e) {
				hit = true
			}
			return true
		})
		return hit
	}
	var hotVar, snapVar types.Object
	var snapLookup *core.Node
	nLookups := 0
	for _, n := range g.Nodes {
		as, ok := n.N.(*ast.AssignStmt)
		if !ok || len(as.Lhs) != 1 || len(as.Rhs) != 1 {
			continue
		}
		c, ok := ast.Unparen(as.Rhs[0]).(*ast.CallExpr)
		if !ok || !entryCall(info, c) {
			continue
		}
		nLookups++
		if viaSnap(c) {
			snapVar, snapLookup = core.ObjOf(info, as.Lhs[0]), n
		} else {
			hotVar = core.ObjOf(info, as.Lhs[0])
		}
	}
	if !r.Check(nLookups == 2 && hotVar != nil && snapVar != nil && hotVar != snapVar, rule, f.String(), "lookups:shape", f.Pos(), "one lookup in the hot store and one in the snapshot's store, kept in two variables") {
		return
	}
	// (a) the snapshot is consulted unless there is none
	x := core.NormalExitM2(g, g.ReachFromEntry(func(n *core.Node) bool { return n == snapLookup }, m2Nil(info, f.Decl.Body, isSnapField, true)))
	r.Check(x == nil, rule, f.String(), "snapshot-not-consulted", g.Line(snapLookup), "every path passes the lookup in the snapshot's store unless an edge establishes Cache.snapshot == nil")
	// (b) nil is returned only when both entries are absent or the counted total is zero
	count := call("tsdb/engine/tsm1.entry.count")
	isCount := core.DerivedFromM2(info, f.Decl.Body, func(e ast.Expr) bool {
		c, ok := e.(*ast.CallExpr)
		return ok && count(info, c)
	})
	// op-assignments (sz += e.count()) are definitions too
	counters := map[types.Object]bool{}
	ast.Inspect(f.Decl.Body, func(n ast.Node) bool {
		if as, ok := n.(*ast.AssignStmt); ok && len(as.Lhs) == 1 && len(as.Rhs) == 1 && isCount(as.Rhs[0]) {
			if o := core.ObjOf(info, as.Lhs[0]); o != nil {
				counters[o] = true
			}
		}
		return true
	})
	isTotal := func(x ast.Expr) bool { return counters[core.ObjOf(info, x)] }
	totalZero := m2Est(info, f.Decl.Body, func(a ast.Expr, v bool) bool { return core.CountZeroAtom5(info, a, v, isTotal) })
	for _, x := range g.Exits {
		rs, ok := x.N.(*ast.ReturnStmt)
		if !ok || len(rs.Results) != 1 || !core.IsNilIdent(info, rs.Results[0]) {
			continue
		}
		okHot := g.OnlyThroughM2(nil, x, core.AnyEdge(m2NilObj(info, f.Decl.Body, hotVar, true), totalZero), nil)
		okSnap := g.OnlyThroughM2(nil, x, core.AnyEdge(m2NilObj(info, f.Decl.Body, snapVar, true), totalZero), nil)
		r.Check(okHot && okSnap, rule, f.String(), "nil-result-with-entry-present", g.Line(x),
			"nil is returned only on paths that establish both the hot and the snapshot entry to be nil, or the counted number of values to be zero")
	}
	// (c) each entry is merged unless it is nil
	cp := g.Calling(core.Builtin("copy"))
	for _, v := range []struct {
		obj  types.Object
		name string
	}{{hotVar, "hot"}, {snapVar, "snapshot"}} {
		app := func(n *core.Node) bool {
			as, ok := n.N.(*ast.AssignStmt)
			if !ok || len(as.Rhs) != 1 {
				return false
			}
			c, ok := ast.Unparen(as.Rhs[0]).(*ast.CallExpr)
			if !ok || !core.Builtin("append")(info, c) {
				return false
			}
			for _, a := range c.Args[1:] {
				if core.ObjOf(info, a) == v.obj {
					return true
				}
			}
			return false
		}
		if !r.Check(len(g.Select(app)) >= 1, rule, f.String(), v.name+"-entry-merge:absent", f.Pos(), "the "+v.name+" entry is appended to the merge list") {
			continue
		}
		reach := g.ReachFromEntry(app, m2NilObj(info, f.Decl.Body, v.obj, true))
		bad := ""
		for _, n := range g.Select(cp) {
			if reach[n] {
				bad = g.Line(n)
			}
		}
		r.Check(bad == "", rule, f.String(), v.name+"-entry-skipped", f.Pos(), "the values are copied only after the "+v.name+" entry was put on the merge list, unless an edge establishes that entry to be nil "+bad)
	}
}

// ---------------------------------------------------------------- Cache.DeleteRange

func m2DeleteRange(p *core.Prog, r *core.Report) {
	f := p.Func(tsm1, "Cache.DeleteRange")
	if f == nil || f.Decl.Body == nil {
		return
	}
	const rule = "delete-complete"
	g := f.Graph()
	info := f.Info()
	sig := f.Obj.Type().(*types.Signature)
	if sig.Params().Len() != 3 {
		r.Bad(rule, f.String(), "signature", f.Pos(), "DeleteRange(keys, min, max) expected")
		return
	}
	keys, minP, maxP := sig.Params().At(0), sig.Params().At(1), sig.Params().At(2)
	loops := core.RangeOver(f.Decl.Body, func(x ast.Expr) bool { return core.ObjOf(info, x) == keys })
	if !r.Check(len(loops) == 1, rule, f.String(), "key-loop:absent", f.Pos(), "one loop over the given keys") {
		return
	}
	loop := loops[0]
	// (a) every key is visited: no iteration leaves the loop or the function
	esc, ok := g.IterEscapes12(loop, nil, nil)
	if r.Check(ok, rule, f.String(), "key-loop:not-in-graph", f.Pos(), "key loop found in the CFG") {
		bad := ""
		for _, e := range esc {
			if e.Kind != "next" {
				bad = e.Kind + " at " + g.Line(e.Via)
			}
		}
		r.Check(bad == "", rule, f.String(), "key-loop-left-early", f.Pos(), "no iteration ends the loop (break / return): a missing or emptied key must not stop the deletion of the remaining keys "+bad)
	}
	// (b) every present entry is mutated
	entryCall := call("tsdb/engine/tsm1.storer.entry")
	var ent types.Object
	for _, n := range g.Nodes {
		if as, ok := n.N.(*ast.AssignStmt); ok && len(as.Lhs) == 1 && len(as.Rhs) == 1 && core.InRegion(n, loop.Body) {
			if c, ok := ast.Unparen(as.Rhs[0]).(*ast.CallExpr); ok && entryCall(info, c) {
				ent = core.ObjOf(info, as.Lhs[0])
			}
		}
	}
	remove := g.Calling(call("tsdb/engine/tsm1.storer.remove"))
	filter := g.Calling(call("tsdb/engine/tsm1.entry.filter"))
	if r.Check(ent != nil, rule, f.String(), "entry-lookup:absent", f.Pos(), "the entry of each key is looked up") {
		esc, _ := g.IterEscapes12(loop, core.AnyOf(remove, filter), m2NilObj(info, f.Decl.Body, ent, true))
		bad := ""
		for _, e := range esc {
			if e.Kind == "next" {
				bad = "at " + g.Line(e.Via)
			}
		}
		r.Check(bad == "", rule, f.String(), "present-entry-not-mutated", f.Pos(), "every iteration removes or filters the entry unless an edge establishes that the key has no entry "+bad)
	}
	// (c) a key is removed only for the full range or when nothing is left
	count := call("tsdb/engine/tsm1.entry.count")
	isCount := func(x ast.Expr) bool {
		c, ok := ast.Unparen(core.ResolveLocal(info, f.Decl.Body, x)).(*ast.CallExpr)
		return ok && count(info, c)
	}
	var emptied core.CondFact = func(a ast.Expr, v bool) bool { return core.CountZeroAtom5(info, a, v, isCount) }
	isBound := func(param *types.Var, bound int64) core.CondFact {
		return core.TempsM2(info, f.Decl.Body, core.CmpFact12(func(l ast.Expr, op token.Token, rr ast.Expr) bool {
			c, ok := core.ConstInt(info, rr)
			return ok && c == bound && op == token.EQL && core.ObjOf(info, l) == param
		}))
	}
	// the two facts of the full range may be established on one edge (`a && b`) or on nested ones
	alts := [][]core.CondFact{{emptied}, {isBound(minP, math.MinInt64), isBound(maxP, math.MaxInt64)}}
	_, bodyEntry, _ := g.LoopNodes(loop)
	if bodyEntry != nil {
		for _, n := range g.Select(remove) {
			if !core.InRegion(n, loop.Body) {
				continue
			}
			n := n
			x := g.UnjustifiedM2(info, f.Decl.Body, []*core.Node{bodyEntry}, func(m *core.Node) bool { return m == n }, nil, alts)
			r.Check(x == nil, rule, f.String(), "key-removed-with-values-left", g.Line(n),
				"store.remove is reached only on edges that establish min == MinInt64 && max == MaxInt64, or entry.count() == 0 after the filter")
		}
	}
}
