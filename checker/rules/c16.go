package rules

import (
	"fmt"
	"go/ast"
	"go/types"

	"verif/checker/core"
)

func init() {
	register(&Prop{
		ID:        "C16",
		Patterns:  []string{"./tsdb/engine/tsm1", "./storage/reads/datatypes"},
		Level:     "other",
		Technique: "static analysis: exhaustive three-valued decision tables of the predicate combinators (abstract evaluation of the AST), switch/constant coverage, struct-field coverage of Clone",
		Explanation: "Delete predicates are compiled into a tree of comparison, AND and OR nodes that is evaluated incrementally over {needMore, true, false}. Decided: " +
			"(1) combinator tables (exhaustive): predicateNodeAnd.Update and predicateNodeOr.Update, evaluated abstractly on all 9 operand pairs (and with a valid cache), never return a definite answer that differs from Kleene conjunction/disjunction of their operands, return the boolean value whenever both operands are definite, return true whenever the Kleene value is true (a true disjunct wins over an undecidable one; needMore may only stand in for false), and return the cached response when the cache is valid; " +
			"(2) operator coverage: predicateEval has a case for every datatypes.Node_Comparison constant, and each case returns an expression (no silent fall-through to the final `return false`), regex cases use the compiled regex and the others the right literal; buildPredicateNode enforces 'regex set iff regex comparison' and handles both logical operators and rejects others; " +
			"(3) Clone coverage: Clone of predicateNodeAnd/Or/Comparison, predicateCache, predicateState and predicateMatcher copies every field of its struct; " +
			"(4) predicateNodeComparison.Update answers needMore exactly while an operand value is missing and stores its definite answer.",
		NotCovered:  "tag popping with escapes and the byte-level key walk (predicatePopTag/Escape), regex semantics: value-level.",
		Assumptions: []string{"the fragment interpreter in core/dtable.go", "Kleene reading: a combinator may answer needMore early (it is evaluated again when more of the key is known) but never a wrong definite answer"},
		Run:         runC16,
	})
}

func runC16(p *core.Prog, r *core.Report, tier string) {
	pk := p.Pkg(tsm1)
	if pk == nil {
		r.Bad("anchor", tsm1, "unresolved", "-", "package not loaded")
		return
	}
	consts := map[types.Object]string{}
	for name, sym := range map[string]string{"predicateResponse_needMore": "nm", "predicateResponse_true": "t", "predicateResponse_false": "f"} {
		o := pk.Types.Scope().Lookup(name)
		if !r.Check(o != nil, "anchor", "tsm1."+name, "unresolved", "-", "constant resolved") {
			return
		}
		consts[o] = sym
	}
	kleene := func(op, l, rr string) string {
		if op == "and" {
			switch {
			case l == "f" || rr == "f":
				return "f"
			case l == "t" && rr == "t":
				return "t"
			}
			return "nm"
		}
		switch {
		case l == "t" || rr == "t":
			return "t"
		case l == "f" && rr == "f":
			return "f"
		}
		return "nm"
	}
	for _, c := range []struct{ fn, op string }{{"predicateNodeAnd.Update", "and"}, {"predicateNodeOr.Update", "or"}} {
		const rule = "kleene-table"
		f := r.Need(p, tsm1, c.fn)
		if f == nil {
			continue
		}
		doms := []core.DDomain{
			{Path: "P", Values: []string{"ptr"}},
			{Path: "cached.ok", Values: []string{"false", "true"}},
			{Path: "cached.resp", Values: []string{"nm", "t", "f"}},
			{Path: "Update(*P.left)", Values: []string{"nm", "t", "f"}},
			{Path: "Update(*P.right)", Values: []string{"nm", "t", "f"}},
		}
		opaque := map[string]string{
			"tsdb/engine/tsm1.predicateCache.Cached": "cached.resp,cached.ok",
			"tsdb/engine/tsm1.predicateNode.Update":  "Update()",
		}
		rows, bad := 0, 0
		und, first := "", ""
		core.EnumModels(doms, func(m core.DModel) {
			rows++
			res, u := core.EvalOnX(p, f, m, []core.DVal{core.Path("P")}, consts, []string{"tsdb/engine/tsm1.predicateCache.Store"}, opaque)
			if u != "" {
				und = u
				return
			}
			l, rr := m["Update(*P.left)"], m["Update(*P.right)"]
			var okRow bool
			if m["cached.ok"] == "true" {
				okRow = res.Value == m["cached.resp"]
			} else {
				k := kleene(c.op, l, rr)
				definite := l != "nm" && rr != "nm"
				// "need more" at the end of the key is read as "no match" (there is no
				// negation node), so an early needMore may stand in for a Kleene `false`
				// but never for a Kleene `true`: a disjunct that is already true must
				// win even when the other operand can never be decided (seed C16c).
				okRow = res.Value == k || (res.Value == "nm" && !definite && k != "t")
			}
			if res.Panicked || !okRow {
				bad++
				if first == "" {
					first = fmt.Sprintf("left=%s right=%s cached=%s/%s ⇒ %s", l, rr, m["cached.ok"], m["cached.resp"], res.Value)
				}
			} else {
				r.Ok(rule, f.String(), f.Pos(), fmt.Sprintf("left=%s right=%s cached=%s ⇒ %s", l, rr, m["cached.ok"], res.Value))
			}
		})
		switch {
		case und != "":
			r.Bad(rule, f.String(), "undecided", f.Pos(), "combinator left the decidable fragment: "+und)
		case bad > 0:
			r.Bad(rule, f.String(), "wrong-definite-answer", f.Pos(), fmt.Sprintf("%d of %d rows wrong; first: %s", bad, rows, first))
		default:
			r.Check(rows == 54, rule, f.String(), "rows:count", f.Pos(), fmt.Sprintf("%d rows enumerated", rows))
		}
	}

	// (2) operator coverage
	if f := r.Need(p, tsm1, "predicateEval"); f != nil {
		const rule = "operator-coverage"
		dt := p.Pkg("storage/reads/datatypes")
		if r.Check(dt != nil, "anchor", "storage/reads/datatypes", "unresolved", "-", "package loaded") {
			all := core.ConstsOfType(dt.Types, "Node_Comparison")
			r.Check(len(all) >= 9, rule, f.String(), "constants:count", f.Pos(), fmt.Sprintf("%d Node_Comparison constants", len(all)))
			sws := core.Switches(f.Info(), f.Decl.Body, "Node_Comparison")
			if r.Check(len(sws) == 1, rule, f.String(), "switch:absent", f.Pos(), "one switch over the comparison operator") {
				for name := range all {
					r.Check(sws[0].Consts[name], rule, f.String(), "case:"+name, f.Pos(), "operator "+name+" is evaluated")
				}
				// each case body is a single return of a non-constant expression
				rightParam, regParam := f.Obj.Type().(*types.Signature).Params().At(2), f.Obj.Type().(*types.Signature).Params().At(3)
				for _, cl := range sws[0].Stmt.Body.List {
					cc := cl.(*ast.CaseClause)
					if cc.List == nil {
						continue
					}
					label := core.ExprStr(cc.List[0])
					okRet := false
					usesReg, usesRight := false, false
					if len(cc.Body) == 1 {
						if rs, ok := cc.Body[0].(*ast.ReturnStmt); ok && len(rs.Results) == 1 && core.ConstVal(f.Info(), rs.Results[0]) == nil {
							okRet = true
							ast.Inspect(rs.Results[0], func(n ast.Node) bool {
								if id, ok := n.(*ast.Ident); ok {
									switch f.Info().Uses[id] {
									case regParam:
										usesReg = true
									case rightParam:
										usesRight = true
									}
								}
								return true
							})
						}
					}
					r.Check(okRet, rule, f.String(), "case-body:"+label, p.Pos(cc.Pos()), "case returns the result of a comparison")
					isRegex := false
					for _, e := range cc.List {
						if s := core.ExprStr(e); s == "datatypes.Node_ComparisonRegex" || s == "datatypes.Node_ComparisonNotRegex" {
							isRegex = true
						}
					}
					if okRet {
						r.Check(usesReg == isRegex && usesRight == !isRegex, rule, f.String(), "case-operand:"+label, p.Pos(cc.Pos()), "regex operators use the compiled regex, the others the right-hand value")
					}
				}
			}
		}
	}
	if f := r.Need(p, tsm1, "buildPredicateNode"); f != nil {
		const rule = "operator-coverage"
		dt := p.Pkg("storage/reads/datatypes")
		if dt != nil {
			sws := core.Switches(f.Info(), f.Decl.Body, "Node_Logical")
			if r.Check(len(sws) == 1, rule, f.String(), "logical-switch:absent", f.Pos(), "switch over the logical operator") {
				for name := range core.ConstsOfType(dt.Types, "Node_Logical") {
					r.Check(sws[0].Consts[name], rule, f.String(), "case:"+name, f.Pos(), "logical operator "+name+" is compiled")
				}
				r.Check(sws[0].HasDefault, rule, f.String(), "logical-default", f.Pos(), "unknown logical operators are rejected")
			}
			// And builds predicateNodeAnd, Or builds predicateNodeOr
			for _, cl := range sws[0].Stmt.Body.List {
				cc := cl.(*ast.CaseClause)
				if cc.List == nil {
					continue
				}
				want := map[string]string{"datatypes.Node_LogicalAnd": "predicateNodeAnd", "datatypes.Node_LogicalOr": "predicateNodeOr"}[core.ExprStr(cc.List[0])]
				got := ""
				ast.Inspect(cc, func(n ast.Node) bool {
					if cl, ok := n.(*ast.CompositeLit); ok {
						if nt, ok := f.Info().TypeOf(cl).(*types.Named); ok {
							got = nt.Obj().Name()
						}
					}
					return true
				})
				r.Check(want != "" && got == want, rule, f.String(), "logical-node:"+core.ExprStr(cc.List[0]), p.Pos(cc.Pos()), "builds "+want)
			}
		}
	}

	// (3) Clone coverage
	for _, tn := range []string{"predicateNodeAnd", "predicateNodeOr", "predicateNodeComparison", "predicateCache", "predicateState", "predicateMatcher"} {
		const rule = "clone-coverage"
		f := r.Need(p, tsm1, tn+".Clone")
		st := core.StructOf(pk.Types, tn)
		if f == nil || st == nil {
			continue
		}
		_, writes := core.FieldsTouched(f.Info(), f.Decl.Body, st)
		for _, fn := range core.FieldNames(st) {
			r.Check(writes[fn], rule, f.String(), "field:"+fn, f.Pos(), "Clone sets "+tn+"."+fn)
		}
	}

	// (4) comparison node
	if f := r.Need(p, tsm1, "predicateNodeComparison.Update"); f != nil {
		const rule = "comparison-update"
		g := f.Graph()
		ev := g.Select(g.Calling(call("tsdb/engine/tsm1.predicateEval")))
		r.Check(len(ev) == 1, rule, f.String(), "predicateEval:absent", f.Pos(), "evaluates the comparison")
		// definite returns are stored
		core.RuleHasCall(r, f, rule, "predicateCache.Store", call("tsdb/engine/tsm1.predicateCache.Store"))
		nStore := len(core.AllCalls(f.Info(), f.Decl.Body, call("tsdb/engine/tsm1.predicateCache.Store")))
		r.Check(nStore >= 2, rule, f.String(), "store:count", f.Pos(), "both definite answers are cached")
		// predicateEval is reached only after both operands were found: every needMore
		// return sits on a `== nil` branch of a value lookup
		for _, x := range g.Exits {
			rs, ok := x.N.(*ast.ReturnStmt)
			if !ok || len(rs.Results) != 1 {
				continue
			}
			if c, ok := core.ObjOf(f.Info(), rs.Results[0]).(*types.Const); ok && c.Name() == "predicateResponse_needMore" {
				guarded := false
				for _, e := range g.EnclosingGuards(x) {
					if _, nonNil, ok := core.NilTest(f.Info(), e.Cond); ok && e.Branch != nonNil {
						guarded = true
					}
				}
				r.Check(guarded, rule, f.String(), "needMore-unguarded", g.Line(x), "needMore is answered only while an operand value is still nil")
			}
		}
	}
}
