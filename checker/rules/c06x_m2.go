package rules

import (
	"fmt"
	"go/ast"
	"go/token"
	"go/types"
	"math"

	"verif/checker/core"
)

// C06 strengthening (m2): survivor-driven rules for the location scan, the
// cursor positioning, the file set a cursor sees across Replace, and the
// structural skeleton of the Read*Block merge (which blocks are marked / merged
// / returned on which edges — not the merged values).

func init() {
	extend("C06",
		"(9) fs-lock-paths: every RLock/Lock of FileStore.slowMu/fastMu (wlock/wunlock seen through) is released on every path before the function returns or takes the same lock again; "+
			"(10) locations-complete: FileStore.locations never leaves its file loop or its block loop early (a skipped file/block only ends its own iteration) and every location it appends has both readMin and readMax set on every path; a file / block is left out only on paths establishing (ascending and its max time < t), (descending and its min time > t) or, for a block, that one tombstone covers [MinTime,MaxTime] (facts may sit on one edge, on nested edges or behind boolean temporaries); readMin=MinInt64 is stored only on ascending edges and readMax=MaxInt64 only on descending ones; newKeyCursor passes KeyCursor.seek and seek skips the direction variants only when c.seeks is empty; "+
			"(11) cursor-position: seekAscending/seekDescending store c.pos only on edges establishing that c.current is still empty (position of the FIRST candidate); the position-advance loop of nextAscending/nextDescending returns only on edges establishing that c.pos ran off the end of c.seeks; KeyCursor.Next advances only on edges establishing c.current[0].read(); "+
			"(12) replace-file-set: FileStore.replace closes/removes a replaced file only on edges establishing !file.InUse(), never keeps a file whose path matched an old file and keeps every file that matched none (flag variables tracked); "+
			"(13) read-block-skeleton, for every KeyCursor method that calls TSMFile.Read*BlockAt: the first candidate is dropped (c.current re-sliced) only on edges establishing values.Len()==0; a result is returned without entering the direction-specific merge only on edges establishing len(c.current) is 0 or 1; every iteration of a merge loop marks the consulted block read before the next one and never leaves the loop; every successful return after the first block was decoded passes first.markRead unless an edge establishes values.Len()==0; on the ascending branch the freshly decoded block is the argument of Merge (it wins on equal timestamps: later file), on the descending branch it is the receiver; a candidate is skipped without decoding only on edges establishing !OverlapsTimeRange(window) or read() and decoded only on edges establishing the opposite; a decoded block is merged unless an edge establishes v.Len()==0, and only after excludeTombstones, Exclude(readMin,readMax) and Include(window); the first block passes excludeTombstones and Exclude before any successful return; the array forms re-slice the caller's buffer before a return that decoded nothing.",
		nil, runC06m2)
}

func runC06m2(p *core.Prog, r *core.Report, tier string) {
	pk := p.Pkg(tsm1)
	if pk == nil {
		return
	}
	m2FsLockPaths(p, r, pk.Types)
	m2Locations(p, r, pk.Types)
	m2CursorPosition(p, r, pk.Types)
	m2ReplaceFileSet(p, r, pk.Types)
	m2ReadBlocks(p, r, pk.Types)
}

// ---------------------------------------------------------------- (9)

func m2FsLockPaths(p *core.Prog, r *core.Report, tp *types.Package) {
	const rule = "fs-lock-paths"
	total := 0
	for _, name := range []string{"slowMu", "fastMu"} {
		mu := core.LookupField(tp, "FileStore", name)
		if !r.Check(mu != nil, rule, "FileStore."+name, "mutex:absent", "-", "mutex field found") {
			continue
		}
		for _, f := range p.Funcs(tsm1) {
			if f.Decl.Body == nil || m2OnlyAcquires(f, mu) {
				continue // wlock: a pure acquire helper, its callers are examined instead
			}
			for _, g := range f.Graphs() {
				n, bad := g.LockBalanceM2(mu)
				total += n
				if n == 0 {
					continue
				}
				for _, b := range bad {
					what := name + "-held-at-exit"
					detail := "FileStore." + name + " acquired here is still held when the function returns at " + g.Line(b.At) + ": Replace (both write locks) and every later cursor block for ever"
					if b.Kind == "re-acquired" {
						what = name + "-re-acquired"
						detail = "FileStore." + name + " acquired here is taken again at " + g.Line(b.At) + " without a release in between (self-deadlock)"
					}
					r.Bad(rule, f.String(), what, g.Line(b.Lock), detail)
				}
				if len(bad) == 0 {
					r.Ok(rule, f.String(), g.Line(g.Entry), fmt.Sprintf("%d acquisition(s) of FileStore.%s, each released on every path", n, name))
				}
			}
		}
	}
	r.Check(total >= 30, rule, tsm1, "acquisitions:count", "-", fmt.Sprintf("%d acquisitions of FileStore.slowMu / fastMu examined (>= 30 confirmed by reading)", total))
}

// m2OnlyAcquires: every statement of f is an acquisition of a mutex field and
// one of them acquires mu (FileStore.wlock).
func m2OnlyAcquires(f *core.Func, mu *types.Var) bool {
	info := f.Info()
	hit := false
	for _, s := range f.Decl.Body.List {
		es, ok := s.(*ast.ExprStmt)
		if !ok {
			return false
		}
		c, ok := ast.Unparen(es.X).(*ast.CallExpr)
		if !ok {
			return false
		}
		fld, op, ok := core.LockOpOn(info, c)
		if !ok || (op != "Lock" && op != "RLock") {
			return false
		}
		if fld == mu {
			hit = true
		}
	}
	return hit
}

// ---------------------------------------------------------------- (10)

func m2Locations(p *core.Prog, r *core.Report, tp *types.Package) {
	f := r.Need(p, tsm1, "FileStore.locations")
	if f == nil {
		return
	}
	const rule = "locations-complete"
	g := f.Graph()
	info := f.Info()
	readMin := core.LookupField(tp, "location", "readMin")
	readMax := core.LookupField(tp, "location", "readMax")
	if readMin == nil || readMax == nil {
		r.Bad(rule, f.String(), "location.readMin/readMax:unresolved", f.Pos(), "fields not found")
		return
	}
	isLocPtr := func(t types.Type) bool {
		pt, ok := t.(*types.Pointer)
		return ok && x2IsNamed(pt.Elem(), "location")
	}
	// appends of a *location to a local slice
	var apps []*core.Node
	var appVar []types.Object
	for _, n := range g.Nodes {
		as, ok := n.N.(*ast.AssignStmt)
		if !ok || len(as.Lhs) != 1 || len(as.Rhs) != 1 {
			continue
		}
		c, ok := ast.Unparen(as.Rhs[0]).(*ast.CallExpr)
		if !ok || !core.Builtin("append")(info, c) || len(c.Args) != 2 {
			continue
		}
		if t := info.TypeOf(c.Args[1]); t == nil || !isLocPtr(t) {
			continue
		}
		apps = append(apps, n)
		appVar = append(appVar, core.ObjOf(info, c.Args[1]))
	}
	if !r.Check(len(apps) >= 1, rule, f.String(), "append:absent", f.Pos(), "the location list is appended to") {
		return
	}
	// the seek time and the direction flag: the int64 and the bool parameter
	var tParam, ascParam *types.Var
	if sig, ok := f.Obj.Type().(*types.Signature); ok {
		for i := 0; i < sig.Params().Len(); i++ {
			pv := sig.Params().At(i)
			if b, ok := pv.Type().Underlying().(*types.Basic); ok {
				switch b.Kind() {
				case types.Int64:
					tParam = pv
				case types.Bool:
					ascParam = pv
				}
			}
		}
	}
	if r.Check(tParam != nil && ascParam != nil, rule, f.String(), "params", f.Pos(), "seek time (int64) and direction (bool) parameters found") {
		body := f.Decl.Body
		// expressions holding the lower / upper time bound of a file or block
		minLike, maxLike := map[types.Object]bool{}, map[types.Object]bool{}
		timeRange := call(tsm1 + ".TSMFile.TimeRange")
		ast.Inspect(body, func(x ast.Node) bool {
			if as, ok := x.(*ast.AssignStmt); ok && len(as.Lhs) == 2 && len(as.Rhs) == 1 {
				if c, ok := ast.Unparen(as.Rhs[0]).(*ast.CallExpr); ok && timeRange(info, c) {
					if o := core.ObjOf(info, as.Lhs[0]); o != nil {
						minLike[o] = true
					}
					if o := core.ObjOf(info, as.Lhs[1]); o != nil {
						maxLike[o] = true
					}
				}
			}
			return true
		})
		ieMin := core.LookupField(tp, "IndexEntry", "MinTime")
		ieMax := core.LookupField(tp, "IndexEntry", "MaxTime")
		trMin := core.LookupField(tp, "TimeRange", "Min")
		trMax := core.LookupField(tp, "TimeRange", "Max")
		isMin := func(x ast.Expr) bool {
			return minLike[core.ObjOf(info, x)] || (ieMin != nil && core.FieldOf(info, x) == ieMin)
		}
		isMax := func(x ast.Expr) bool {
			return maxLike[core.ObjOf(info, x)] || (ieMax != nil && core.FieldOf(info, x) == ieMax)
		}
		isT := func(x ast.Expr) bool { return core.ObjOf(info, x) == tParam }
		tf := func(fact core.CondFact) core.CondFact { return core.TempsM2(info, body, fact) }
		asc := func(val bool) core.CondFact { return tf(core.BoolVarFact(info, ascParam, val)) }
		before := tf(core.CmpFact12(func(l ast.Expr, op token.Token, rr ast.Expr) bool { return isMax(l) && op == token.LSS && isT(rr) }))
		after := tf(core.CmpFact12(func(l ast.Expr, op token.Token, rr ast.Expr) bool { return isMin(l) && op == token.GTR && isT(rr) }))
		covLo := tf(core.CmpFact12(func(l ast.Expr, op token.Token, rr ast.Expr) bool {
			return trMin != nil && core.FieldOf(info, l) == trMin && op == token.LEQ && ieMin != nil && core.FieldOf(info, rr) == ieMin
		}))
		covHi := tf(core.CmpFact12(func(l ast.Expr, op token.Token, rr ast.Expr) bool {
			return trMax != nil && core.FieldOf(info, l) == trMax && op == token.GEQ && ieMax != nil && core.FieldOf(info, rr) == ieMax
		}))
		fileAlts := [][]core.CondFact{{asc(true), before}, {asc(false), after}}
		blockAlts := [][]core.CondFact{{asc(true), before}, {asc(false), after}, {covLo, covHi}}
		isApp := func(n *core.Node) bool {
			for _, a := range apps {
				if a == n {
					return true
				}
			}
			return false
		}
		// innermost loop around the append = the block loop; the outermost = the file loop
		if inner := core.InnermostLoop12(body, apps[0]); inner != nil {
			ihead, ibody, _ := g.LoopNodes(inner)
			bad := ""
			if ihead != nil && ibody != nil {
				if x := g.UnjustifiedM2(info, body, []*core.Node{ibody}, func(n *core.Node) bool { return n == ihead }, isApp, blockAlts); x != nil {
					bad = "(next block reached unjustified)"
				}
			} else {
				bad = "(loop not in CFG)"
			}
			r.Check(bad == "", rule, f.String(), "block-skipped-in-range", p.Pos(inner.Pos()),
				"a block is left out only on edges establishing (ascending and block.MaxTime < t), (descending and block.MinTime > t), or that a tombstone covers [MinTime,MaxTime] "+bad)
			// files: the block loop is entered unless the file is out of range for the direction
			var outer ast.Stmt
			ast.Inspect(body, func(x ast.Node) bool {
				if st, ok := x.(ast.Stmt); ok && outer == nil && st != inner {
					if lb := core.LoopBody(st); lb != nil && core.InRegion(apps[0], lb) {
						outer = st
					}
				}
				return true
			})
			if outer != nil {
				// reaching any block of the inner loop (its condition, body, post) = the file is scanned
				first := func(n *core.Node) bool {
					return (n.Block != nil && n.Block.Stmt == ast.Node(inner)) || core.InRegion(n, core.LoopBody(inner))
				}
				ohead, obody, _ := g.LoopNodes(outer)
				bad := ""
				if ohead != nil && obody != nil {
					if x := g.UnjustifiedM2(info, body, []*core.Node{obody}, func(n *core.Node) bool { return n == ohead }, first, fileAlts); x != nil {
						bad = "(next file reached unjustified)"
					}
				} else {
					bad = "(loop not in CFG)"
				}
				r.Check(bad == "", rule, f.String(), "file-skipped-in-range", p.Pos(outer.Pos()),
					"a file's blocks are scanned unless an edge establishes (ascending and file max time < t) or (descending and file min time > t) "+bad)
			}
		}
		// the read bounds follow the direction: [MinInt64, t-1] ascending, [t+1, MaxInt64] descending
		onAsc := m2Est(info, body, core.BoolVarFact(info, ascParam, true))
		onDesc := m2Est(info, body, core.BoolVarFact(info, ascParam, false))
		for _, n := range g.Nodes {
			as, ok := n.N.(*ast.AssignStmt)
			if !ok || len(as.Lhs) != len(as.Rhs) {
				continue
			}
			for i, l := range as.Lhs {
				fld := core.FieldOf(info, l)
				if fld != readMin && fld != readMax {
					continue
				}
				c, isConst := core.ConstInt(info, as.Rhs[i])
				switch {
				case isConst && fld == readMin && c == math.MinInt64:
					r.Check(g.OnlyThroughM2(nil, n, onAsc, nil), rule, f.String(), "read-bounds-direction", g.Line(n), "readMin = MinInt64 (everything before the seek time counts as read) is stored only on edges establishing ascending")
				case isConst && fld == readMax && c == math.MaxInt64:
					r.Check(g.OnlyThroughM2(nil, n, onDesc, nil), rule, f.String(), "read-bounds-direction", g.Line(n), "readMax = MaxInt64 (everything after the seek time counts as read) is stored only on edges establishing !ascending")
				}
			}
		}
	}
	for i, a := range apps {
		// every loop around the append: no iteration leaves it
		ast.Inspect(f.Decl.Body, func(x ast.Node) bool {
			var body *ast.BlockStmt
			switch l := x.(type) {
			case *ast.ForStmt:
				body = l.Body
			case *ast.RangeStmt:
				body = l.Body
			}
			if body == nil || !core.InRegion(a, body) {
				return true
			}
			esc, ok := g.IterEscapes12(x.(ast.Stmt), nil, nil)
			if !r.Check(ok, rule, f.String(), "loop-not-in-cfg", p.Pos(x.Pos()), "loop found in the CFG") {
				return true
			}
			bad := ""
			for _, e := range esc {
				if e.Kind != "next" {
					bad = e.Kind + " at " + g.Line(e.Via)
				}
			}
			r.Check(bad == "", rule, f.String(), "scan-left-early", p.Pos(x.Pos()), "no iteration ends the scan of the files / of a file's blocks (a file or block that is out of range only ends its own iteration) "+bad)
			return true
		})
		// both read bounds are set before the location is appended
		x := appVar[i]
		if !r.Check(x != nil, rule, f.String(), "appended-location-not-a-variable", g.Line(a), "the appended location is a local variable") {
			continue
		}
		defs := g.Select(g.AssigningObj(x))
		if !r.Check(len(defs) >= 1, rule, f.String(), "location-def:absent", g.Line(a), "definition of the appended location found") {
			continue
		}
		for _, fld := range []*types.Var{readMin, readMax} {
			inLit := false
			for _, d := range defs {
				ast.Inspect(d.N, func(y ast.Node) bool {
					if kv, ok := y.(*ast.KeyValueExpr); ok {
						if id, ok := kv.Key.(*ast.Ident); ok && info.Uses[id] == fld {
							inLit = true
						}
					}
					return true
				})
			}
			if inLit {
				r.Ok(rule, f.String(), g.Line(a), fld.Name()+" set in the literal")
				continue
			}
			set := func(n *core.Node) bool {
				as, ok := n.N.(*ast.AssignStmt)
				if !ok {
					return false
				}
				for _, l := range as.Lhs {
					if se, ok := ast.Unparen(l).(*ast.SelectorExpr); ok && core.FieldOf(info, se) == fld && core.ObjOf(info, se.X) == x {
						return true
					}
				}
				return false
			}
			var start []*core.Node
			for _, d := range defs {
				start = append(start, core.After(d, nil)...)
			}
			r.Check(!g.Reach(start, set, nil)[a], rule, f.String(), fld.Name()+"-unset", g.Line(a),
				"location."+fld.Name()+" is stored on every path from the creation of the location to its append (the seek-time filter [readMin,readMax] is complete in both directions)")
		}
	}
}

// ---------------------------------------------------------------- (11)

func m2CursorPosition(p *core.Prog, r *core.Report, tp *types.Package) {
	const rule = "cursor-position"
	posF := core.LookupField(tp, "KeyCursor", "pos")
	curF := core.LookupField(tp, "KeyCursor", "current")
	seeksF := core.LookupField(tp, "KeyCursor", "seeks")
	if posF == nil || curF == nil || seeksF == nil {
		return // reported by (8)
	}
	for _, name := range []string{"KeyCursor.seekAscending", "KeyCursor.seekDescending"} {
		f := p.Func(tsm1, name)
		if f == nil || f.Decl.Body == nil {
			continue
		}
		g := f.Graph()
		info := f.Info()
		stores := g.Select(g.Assigning(posF))
		r.Check(len(stores) >= 1, rule, f.String(), "pos-store:absent", f.Pos(), "the position of the first candidate is recorded")
		stillEmpty := m2Empty(info, f.Decl.Body, func(x ast.Expr) bool { return core.FieldOf(info, x) == curF })
		for _, s := range stores {
			r.Check(g.OnlyThroughM2(nil, s, stillEmpty, nil), rule, f.String(), "pos-overwritten", g.Line(s),
				"c.pos is stored only on edges establishing len(c.current) == 0: it is the position of the first candidate, Next continues from there")
		}
	}
	for _, d := range []struct {
		name string
		asc  bool
	}{{"KeyCursor.nextAscending", true}, {"KeyCursor.nextDescending", false}} {
		f := p.Func(tsm1, d.name)
		if f == nil || f.Decl.Body == nil {
			continue
		}
		g := f.Graph()
		info := f.Info()
		isPos := func(x ast.Expr) bool { return core.FieldOf(info, x) == posF }
		isLenSeeks := func(x ast.Expr) bool {
			c, ok := ast.Unparen(x).(*ast.CallExpr)
			return ok && core.Builtin("len")(info, c) && len(c.Args) == 1 && core.FieldOf(info, c.Args[0]) == seeksF
		}
		offEnd := m2Cmp(info, f.Decl.Body, func(l ast.Expr, op token.Token, rr ast.Expr) bool {
			if !isPos(l) {
				return false
			}
			if d.asc {
				return op == token.GEQ && isLenSeeks(rr)
			}
			c, ok := core.ConstInt(info, rr)
			return ok && ((op == token.LSS && c == 0) || (op == token.LEQ && c == -1))
		})
		// the advance loop: the loop whose body steps c.pos
		var loop ast.Stmt
		for _, n := range g.Nodes {
			if id, ok := n.N.(*ast.IncDecStmt); ok && isPos(id.X) {
				if l := core.InnermostLoop12(f.Decl.Body, n); l != nil && loop == nil {
					loop = l
				}
			}
		}
		if !r.Check(loop != nil, rule, f.String(), "advance-loop:absent", f.Pos(), "the loop stepping c.pos found") {
			continue
		}
		_, bodyEntry, _ := g.LoopNodes(loop)
		body := core.LoopBody(loop)
		for _, x := range g.Exits {
			if bodyEntry == nil || body == nil || !core.InRegion(x, body) || x.Kind == core.KPanic {
				continue
			}
			r.Check(g.OnlyThroughM2([]*core.Node{bodyEntry}, x, offEnd, nil), rule, f.String(), "returns-before-end", g.Line(x),
				"the advance loop gives up only on edges establishing that c.pos ran off the end of c.seeks (otherwise unread blocks are never returned)")
		}
	}
	// a new cursor is positioned: newKeyCursor passes KeyCursor.seek, and seek gives up
	// without calling a direction variant only when there are no locations at all
	if f := p.Func(tsm1, "newKeyCursor"); f != nil && f.Decl.Body != nil {
		core.RuleMustPass(r, f, rule, "KeyCursor.seek", call(tsm1+".KeyCursor.seek"), false)
	}
	if f := p.Func(tsm1, "KeyCursor.seek"); f != nil && f.Decl.Body != nil {
		g := f.Graph()
		info := f.Info()
		variants := g.Calling(call(tsm1+".KeyCursor.seekAscending", tsm1+".KeyCursor.seekDescending"))
		noSeeks := m2Empty(info, f.Decl.Body, func(x ast.Expr) bool { return core.FieldOf(info, x) == seeksF })
		x := core.NormalExitM2(g, g.ReachFromEntry(variants, noSeeks))
		pos := f.Pos()
		if x != nil {
			pos = g.Line(x)
		}
		r.Check(x == nil, rule, f.String(), "seek-skipped", pos, "seek returns without seekAscending/seekDescending only on edges establishing len(c.seeks) == 0")
	}
	if f := p.Func(tsm1, "KeyCursor.Next"); f != nil && f.Decl.Body != nil {
		g := f.Graph()
		info := f.Info()
		firstRead := m2Est(info, f.Decl.Body, core.CallFact(info, call(tsm1+".location.read"), true, func(c *ast.CallExpr) bool {
			ix, ok := core.RecvOfCallM2(c).(*ast.IndexExpr)
			if !ok || core.FieldOf(info, ix.X) != curF {
				return false
			}
			v, ok := core.ConstInt(info, ix.Index)
			return ok && v == 0
		}))
		adv := g.Select(g.Calling(call(tsm1+".KeyCursor.nextAscending", tsm1+".KeyCursor.nextDescending")))
		for _, n := range adv {
			r.Check(g.OnlyThroughM2(nil, n, firstRead, nil), rule, f.String(), "advance-with-unread-first", g.Line(n),
				"Next advances only on edges establishing c.current[0].read(): a block with unread values stays current")
		}
		// … and it does advance then: the read()==true edge does not lead to a return that skips both variants
		for _, n := range g.Nodes {
			for _, e := range n.Succ {
				if !firstRead(e) {
					continue
				}
				x := core.NormalExitM2(g, g.Reach([]*core.Node{e.To}, func(m *core.Node) bool {
					for _, a := range adv {
						if a == m {
							return true
						}
					}
					return false
				}, nil))
				r.Check(x == nil, rule, f.String(), "read-first-not-advanced", g.Line(n), "once the first candidate is fully read every path calls nextAscending/nextDescending")
			}
		}
	}
}

// ---------------------------------------------------------------- (12)

func m2ReplaceFileSet(p *core.Prog, r *core.Report, tp *types.Package) {
	f := p.Func(tsm1, "FileStore.replace")
	if f == nil || f.Decl.Body == nil {
		return
	}
	const rule = "replace-file-set"
	g := f.Graph()
	info := f.Info()
	filesF := core.LookupField(tp, "FileStore", "files")
	sig := f.Obj.Type().(*types.Signature)
	if filesF == nil || sig.Params().Len() < 1 {
		return
	}
	oldFiles := sig.Params().At(0)
	// (a) Close / Remove of a file only when it is not in use
	notInUse := m2Est(info, f.Decl.Body, core.CallFact(info, call(tsm1+".TSMFile.InUse"), false, nil))
	nClose := 0
	for _, n := range g.Select(g.Calling(call(tsm1+".TSMFile.Close", tsm1+".TSMFile.Remove"))) {
		nClose++
		r.Check(g.OnlyThroughM2(nil, n, notInUse, nil), rule, f.String(), "closed-while-in-use", g.Line(n),
			"a replaced file is closed / removed only on edges establishing !file.InUse(): a file a cursor holds a reference on is renamed and handed to the purger instead")
	}
	r.Check(nClose >= 2, rule, f.String(), "close/remove:absent", f.Pos(), "Close and Remove of replaced files found")
	// (b) the new file set
	var active types.Object
	for _, n := range g.Select(g.Assigning(filesF)) {
		if as, ok := n.N.(*ast.AssignStmt); ok && len(as.Lhs) == 1 && len(as.Rhs) == 1 && core.FieldOf(info, as.Lhs[0]) == filesF {
			active = core.ObjOf(info, as.Rhs[0])
		}
	}
	if !r.Check(active != nil, rule, f.String(), "new-set-not-a-variable", f.Pos(), "FileStore.files is assigned a local slice") {
		return
	}
	keepNode := func(n *core.Node) bool {
		as, ok := n.N.(*ast.AssignStmt)
		if !ok || len(as.Lhs) != 1 || len(as.Rhs) != 1 || core.ObjOf(info, as.Lhs[0]) != active {
			return false
		}
		c, ok := ast.Unparen(as.Rhs[0]).(*ast.CallExpr)
		return ok && core.Builtin("append")(info, c)
	}
	keeps := g.Select(keepNode)
	if !r.Check(len(keeps) >= 1, rule, f.String(), "keep:absent", f.Pos(), "files are appended to the new set") {
		return
	}
	loop := core.InnermostLoop12(f.Decl.Body, keeps[0])
	if !r.Check(loop != nil, rule, f.String(), "keep-loop:absent", g.Line(keeps[0]), "the new set is built in a loop over the candidate files") {
		return
	}
	head, bodyEntry, _ := g.LoopNodes(loop)
	// range variables over the oldFiles parameter
	oldVar := map[types.Object]bool{}
	for _, rs := range core.RangeOver(f.Decl.Body, func(x ast.Expr) bool { return core.ObjOf(info, x) == oldFiles }) {
		if rs.Value != nil {
			oldVar[core.ObjOf(info, rs.Value)] = true
		}
	}
	pathCall := call(tsm1 + ".TSMFile.Path")
	matched := m2Cmp(info, f.Decl.Body, func(l ast.Expr, op token.Token, rr ast.Expr) bool {
		c, ok := ast.Unparen(l).(*ast.CallExpr)
		return ok && op == token.EQL && pathCall(info, c) && oldVar[core.ObjOf(info, rr)]
	})
	nMatch := 0
	isHead := func(n *core.Node) bool { return n == head }
	for _, n := range g.Nodes {
		for _, e := range n.Succ {
			if !matched(e) {
				continue
			}
			nMatch++
			reach := g.FlagReachM2([]*core.Node{e.To}, isHead, nil)
			bad := ""
			for _, k := range keeps {
				if reach[k] {
					bad = g.Line(k)
				}
			}
			r.Check(bad == "", rule, f.String(), "replaced-file-kept", g.Line(n), "a file whose path equals an old file never reaches the append to the new file set in that iteration "+bad)
		}
	}
	if r.Check(nMatch >= 1 && bodyEntry != nil && head != nil, rule, f.String(), "match-test:absent", f.Pos(), "file.Path() is compared with the old file names") {
		reach := g.FlagReachM2([]*core.Node{bodyEntry}, keepNode, matched)
		r.Check(!reach[head], rule, f.String(), "unmatched-file-dropped", p.Pos(loop.Pos()), "a file that matches no old file is appended to the new file set before the next file is examined")
	}
}

// ---------------------------------------------------------------- (13)

func m2ReadBlocks(p *core.Prog, r *core.Report, tp *types.Package) {
	const rule = "read-block-skeleton"
	curF := core.LookupField(tp, "KeyCursor", "current")
	ascF := core.LookupField(tp, "KeyCursor", "ascending")
	if curF == nil || ascF == nil {
		return
	}
	readAt := call(tsm1 + ".TSMFile.Read*BlockAt")
	markRead := call(tsm1 + ".location.markRead")
	merge := call(tsm1+".*Values.Merge", "*.*Array.Merge")
	lenCall := call(tsm1+".*Values.Len", "*.*Array.Len")
	include := call(tsm1+".*Values.Include", "*.*Array.Include")
	exclude := call(tsm1+".*Values.Exclude", "*.*Array.Exclude")
	exclTomb := call(tsm1 + ".excludeTombstones*")
	overlaps := call(tsm1 + ".IndexEntry.OverlapsTimeRange")
	readM := call(tsm1 + ".location.read")
	n := 0
	for _, f := range p.Funcs(tsm1) {
		if f.Decl.Body == nil || f.Decl.Recv == nil || x2RecvTypeOf(f) != "KeyCursor" {
			continue
		}
		info := f.Info()
		if len(core.AllCalls(info, f.Decl.Body, readAt)) == 0 {
			continue
		}
		n++
		r.Saw(f)
		g := f.Graph()
		isCur := func(x ast.Expr) bool { return core.FieldOf(info, x) == curF }
		// the first candidate: variable defined from c.current[0]
		var first types.Object
		for _, nd := range g.Nodes {
			if as, ok := nd.N.(*ast.AssignStmt); ok && len(as.Lhs) == 1 && len(as.Rhs) == 1 {
				if ix, ok := ast.Unparen(as.Rhs[0]).(*ast.IndexExpr); ok && isCur(ix.X) {
					if v, ok := core.ConstInt(info, ix.Index); ok && v == 0 && first == nil {
						first = core.ObjOf(info, as.Lhs[0])
					}
				}
			}
		}
		if !r.Check(first != nil, rule, f.String(), "first-candidate:absent", f.Pos(), "the first candidate c.current[0] is bound to a variable") {
			continue
		}
		recvIs := func(c *ast.CallExpr, o types.Object) bool {
			x := core.RecvOfCallM2(c)
			for {
				se, ok := x.(*ast.SelectorExpr)
				if !ok {
					break
				}
				x = ast.Unparen(se.X)
			}
			return core.ObjOf(info, x) == o
		}
		var firstRead *core.Node
		for _, nd := range g.Select(g.Calling(readAt)) {
			for _, c := range core.CallsIn(info, nd.N, readAt, core.WalkOpts{}) {
				if recvIs(c, first) && firstRead == nil {
					firstRead = nd
				}
			}
		}
		if !r.Check(firstRead != nil, rule, f.String(), "first-decode:absent", f.Pos(), "the first candidate is decoded") {
			continue
		}
		// values.Len() == 0
		noValues := m2Est(info, f.Decl.Body, func(a ast.Expr, v bool) bool {
			return core.CountZeroAtom5(info, a, v, func(x ast.Expr) bool {
				c, ok := ast.Unparen(x).(*ast.CallExpr)
				return ok && lenCall(info, c)
			})
		})
		// (a) the first candidate is dropped only when it yielded nothing
		for _, nd := range g.Select(g.Assigning(curF)) {
			r.Check(g.OnlyThroughM2(nil, nd, noValues, nil), rule, f.String(), "candidate-dropped-with-values", g.Line(nd),
				"c.current is re-sliced only on edges establishing values.Len() == 0")
		}
		// (b) returning without the merge only for 0 or 1 candidates
		ascCond := func(nd *core.Node) bool {
			e, ok := nd.N.(ast.Expr)
			if !ok {
				return false
			}
			for _, a := range core.Atoms(e) {
				if core.FieldOf(info, a) == ascF {
					return true
				}
			}
			return false
		}
		if r.Check(len(g.Select(ascCond)) >= 1, rule, f.String(), "direction-test:absent", f.Pos(), "the merge is selected by c.ascending") {
			fewCandidates := m2Est(info, f.Decl.Body, func(a ast.Expr, v bool) bool {
				x, op, c, ok := core.IntCmp(info, a)
				if !ok {
					return false
				}
				lc, isCall := ast.Unparen(x).(*ast.CallExpr)
				if !isCall || !core.Builtin("len")(info, lc) || len(lc.Args) != 1 || !isCur(lc.Args[0]) {
					return false
				}
				if !v {
					op = m2NegOp(op)
				}
				return (op == token.EQL && (c == 0 || c == 1)) || (op == token.LEQ && (c == 0 || c == 1)) || (op == token.LSS && (c == 1 || c == 2))
			})
			reach := g.ReachFromEntry(ascCond, fewCandidates)
			x := firstSuccess(g, reach)
			pos := f.Pos()
			if x != nil {
				pos = g.Line(x)
			}
			r.Check(x == nil, rule, f.String(), "returns-without-merge", pos, "a result is returned without entering the direction-specific merge only on edges establishing len(c.current) == 0 or == 1")
		}
		// (c) merge loops: every iteration marks the consulted block, none leaves the loop
		success := map[*core.Node]bool{}
		for _, x := range g.SuccessExits() {
			success[x] = true
		}
		nLoops := 0
		seenLoop := map[ast.Stmt]bool{}
		for _, nd := range g.Select(g.Calling(readAt)) {
			l := core.InnermostLoop12(f.Decl.Body, nd)
			if l == nil || seenLoop[l] {
				continue
			}
			seenLoop[l] = true
			nLoops++
			esc, ok := g.IterEscapes12(l, g.Calling(markRead), nil)
			if !r.Check(ok, rule, f.String(), "merge-loop-not-in-cfg", p.Pos(l.Pos()), "merge loop found in the CFG") {
				continue
			}
			bad := ""
			for _, e := range esc {
				if e.Kind == "next" {
					bad = "next iteration without markRead at " + g.Line(e.Via)
				}
			}
			escAll, _ := g.IterEscapes12(l, nil, nil)
			for _, e := range escAll {
				switch e.Kind {
				case "leave":
					bad = "loop left at " + g.Line(e.Via)
				case "return":
					if success[e.Via] {
						bad = "successful return at " + g.Line(e.Via)
					}
				}
			}
			// a candidate is skipped only when it is outside the window or already read,
			// and decoded only when it overlaps the window and is unread
			irrelevant := m2Est(info, f.Decl.Body, func(a ast.Expr, v bool) bool {
				c, ok := ast.Unparen(a).(*ast.CallExpr)
				if !ok {
					return false
				}
				return (!v && overlaps(info, c)) || (v && readM(info, c))
			})
			escSkip, _ := g.IterEscapes12(l, g.Calling(readAt), irrelevant)
			skipBad := ""
			for _, e := range escSkip {
				if e.Kind == "next" {
					skipBad = g.Line(e.Via)
				}
			}
			r.Check(skipBad == "", rule, f.String(), "relevant-block-skipped", p.Pos(l.Pos()),
				"an iteration of the merge loop goes on to the next candidate without decoding the block only on edges establishing !OverlapsTimeRange(window) or read() "+skipBad)
			_, bodyEntry, _ := g.LoopNodes(l)
			inWindow := m2Est(info, f.Decl.Body, core.CallFact(info, overlaps, true, nil))
			unread := m2Est(info, f.Decl.Body, core.CallFact(info, readM, false, nil))
			lbody := core.LoopBody(l)
			isMergeHere := func(m *core.Node) bool { return lbody != nil && core.InRegion(m, lbody) && g.Calling(merge)(m) }
			for _, dn := range g.Select(g.Calling(readAt)) {
				if lbody == nil || bodyEntry == nil || !core.InRegion(dn, lbody) {
					continue
				}
				r.Check(g.OnlyThroughM2([]*core.Node{bodyEntry}, dn, inWindow, nil) && g.OnlyThroughM2([]*core.Node{bodyEntry}, dn, unread, nil), rule, f.String(), "irrelevant-block-decoded", g.Line(dn),
					"a candidate is decoded and merged only on edges establishing OverlapsTimeRange(window) and !read()")
				// decoded values are merged unless there are none
				after := g.Reach(core.After(dn, nil), isMergeHere, noValues)
				lost := ""
				for _, m := range g.Select(g.Calling(markRead)) {
					if core.InRegion(m, lbody) && after[m] {
						lost = g.Line(m)
					}
				}
				r.Check(lost == "", rule, f.String(), "decoded-block-not-merged", g.Line(dn),
					"between decoding a candidate and marking it read its values are merged unless an edge establishes v.Len() == 0 "+lost)
				// … and only after tombstones, already-read values and values outside the window were removed
				for _, gate := range []struct {
					what string
					m    core.Matcher
				}{{"excludeTombstones", exclTomb}, {"Exclude(readMin, readMax)", exclude}, {"Include(window)", include}} {
					pre := g.Reach(core.After(dn, nil), g.Calling(gate.m), nil)
					dirty := ""
					for m := range pre {
						if isMergeHere(m) {
							dirty = g.Line(m)
						}
					}
					r.Check(dirty == "", rule, f.String(), "merged-without-"+gate.what, g.Line(dn),
						"the decoded block passes "+gate.what+" before it is merged "+dirty)
				}
			}
			r.Check(bad == "", rule, f.String(), "consulted-block-not-marked", p.Pos(l.Pos()),
				"every iteration of the merge loop marks the consulted block read for the window before the next iteration and never ends the loop: an unmarked block is returned again / out of order "+bad)
			// merge orientation inside this loop
			body := core.LoopBody(l)
			inLoop := func(o types.Object) bool {
				return o != nil && body != nil && o.Pos() >= body.Pos() && o.Pos() < body.End()
			}
			onAsc := m2Est(info, f.Decl.Body, func(a ast.Expr, v bool) bool { return v && core.FieldOf(info, a) == ascF })
			onDesc := m2Est(info, f.Decl.Body, func(a ast.Expr, v bool) bool { return !v && core.FieldOf(info, a) == ascF })
			notAsc := g.ReachFromEntry(nil, onAsc)
			notDesc := g.ReachFromEntry(nil, onDesc)
			nm := 0
			for _, m := range g.Select(g.Calling(merge)) {
				if body == nil || !core.InRegion(m, body) {
					continue
				}
				for _, c := range core.CallsIn(info, m.N, merge, core.WalkOpts{}) {
					if len(c.Args) != 1 {
						continue
					}
					nm++
					// an operand is "fresh" when it is computed from a variable declared inside the loop body
					fresh := func(e ast.Expr) bool {
						hit := false
						if e == nil {
							return false
						}
						ast.Inspect(e, func(y ast.Node) bool {
							if id, ok := y.(*ast.Ident); ok && inLoop(info.Uses[id]) {
								hit = true
							}
							return !hit
						})
						return hit
					}
					recvFresh := fresh(core.RecvOfCallM2(c))
					argFresh := fresh(c.Args[0])
					asc, desc := !notAsc[m], !notDesc[m]
					okDir := (asc && !desc && argFresh && !recvFresh) || (desc && !asc && recvFresh && !argFresh)
					r.Check(okDir, rule, f.String(), "merge-orientation", g.Line(m),
						"ascending: accumulated.Merge(fresh block) — the later file wins on equal timestamps; descending: fresh.Merge(accumulated)")
				}
			}
			r.Check(nm >= 1, rule, f.String(), "merge:absent", p.Pos(l.Pos()), "the decoded block is merged into the result")
		}
		r.Check(nLoops >= 1, rule, f.String(), "merge-loops:absent", f.Pos(), fmt.Sprintf("%d merge loops (ascending and descending on today's tree)", nLoops))
		// (d) the first block is marked before a successful return
		markFirst := func(nd *core.Node) bool {
			if nd.N == nil {
				return false
			}
			for _, c := range core.CallsIn(info, nd.N, markRead, core.WalkOpts{}) {
				if recvIs(c, first) {
					return true
				}
			}
			return false
		}
		x := firstSuccess(g, g.Reach(core.After(firstRead, nil), markFirst, noValues))
		pos := f.Pos()
		if x != nil {
			pos = g.Line(x)
		}
		r.Check(x == nil, rule, f.String(), "first-block-not-marked", pos, "every successful return after the first block was decoded passes first.markRead unless an edge establishes values.Len() == 0 (otherwise the same values are returned again)")
		// (e) the first block's values pass Exclude(readMin, readMax) and the tombstone filter before any successful return
		for _, gate := range []struct {
			what string
			m    core.Matcher
		}{{"excludeTombstones", exclTomb}, {"Exclude(readMin, readMax)", exclude}} {
			x := firstSuccess(g, g.Reach(core.After(firstRead, nil), g.Calling(gate.m), nil))
			pos := f.Pos()
			if x != nil {
				pos = g.Line(x)
			}
			r.Check(x == nil, rule, f.String(), "first-block-without-"+gate.what, pos, "after the first block was decoded every successful return passes "+gate.what)
		}
		// (f) array form: the no-candidate return hands back the caller's buffer emptied
		if sig, ok := f.Obj.Type().(*types.Signature); ok && sig.Params().Len() == 1 {
			if pt, ok := sig.Params().At(0).Type().(*types.Pointer); ok {
				if st, ok := pt.Elem().Underlying().(*types.Struct); ok && st.NumFields() >= 2 {
					param := sig.Params().At(0)
					for i := 0; i < st.NumFields(); i++ {
						fld := st.Field(i)
						if _, isSlice := fld.Type().Underlying().(*types.Slice); !isSlice {
							continue
						}
						trunc := func(nd *core.Node) bool {
							as, ok := nd.N.(*ast.AssignStmt)
							if !ok {
								return false
							}
							for _, l := range as.Lhs {
								if se, ok := ast.Unparen(l).(*ast.SelectorExpr); ok && core.FieldOf(info, se) == fld.Origin() && core.ObjOf(info, se.X) == param {
									return true
								}
							}
							return false
						}
						isFirstRead := func(nd *core.Node) bool { return nd == firstRead }
						x := firstSuccess(g, g.ReachFromEntry(core.AnyOf(trunc, isFirstRead), nil))
						pos := f.Pos()
						if x != nil {
							pos = g.Line(x)
						}
						r.Check(x == nil, rule, f.String(), "stale-buffer-returned:"+fld.Name(), pos, "a successful return that decoded nothing re-slices "+fld.Name()+" of the caller's buffer first (otherwise the previous block's values are returned again)")
					}
				}
			}
		}
	}
	r.Check(n >= 10, rule, tsm1, "read-block-functions:count", "-", fmt.Sprintf("%d KeyCursor methods calling TSMFile.Read*BlockAt (5 scalar + 5 array)", n))
}

func m2NegOp(op token.Token) token.Token {
	switch op {
	case token.EQL:
		return token.NEQ
	case token.NEQ:
		return token.EQL
	case token.LSS:
		return token.GEQ
	case token.GEQ:
		return token.LSS
	case token.GTR:
		return token.LEQ
	case token.LEQ:
		return token.GTR
	}
	return op
}
