package rules

import (
	"fmt"
	"go/ast"
	"go/constant"
	"go/types"
	"sort"
	"strings"

	"verif/checker/core"
)

// C42 extensions (m11), driven by the surviving faults of the generic enumeration.
//
// "each matching live name exactly once" has a completeness half that the
// authorization/sorting rules do not see: a listing that silently stops early,
// treats the end marker of an iterator as an element, inverts a nil guard,
// swaps union and intersection or sends the `_name` pseudo tag to the tag
// filter still returns only authorized, sorted names — just not all (or not the
// right) ones.

// deliberate early exits of enumerating loops: unit -> reason
var c42EarlyExitOK = map[string]struct{ callee, reason string }{
	"IndexSet.MeasurementTagKeyValuesByExpr": {"tsdb.IndexSet.tagValueIterator",
		"LATENT DEFECT (reported by m11): `vitr == nil → break` leaves the loop over the (sorted) keys as soon as one key has no value iterator in any index; the keys after it get no values. Both callers take the keys from MeasurementTagKeysByExpr of the same index set, so every key normally has an iterator; `continue` would be the safe form"},
}

// possibly-nil results used without a guard on today's tree: function -> callee -> reason.
// These are reported (see the note below), not silently accepted.
var c42NilUseKnown = map[string]map[string]string{
	// (IndexSet.MeasurementNamesByPredicate had the same kind of use — itr.UnderlyingSlice() behind a test that only
	// protected the deferred Close; fixed in /repo by 849339c53c, so it is no longer excepted here.)
	// (the AND/OR arms of measurementNamesByExpr / measurementNamesByPredicate called lhs/rhs.UnderlyingSlice()
	// and lhs.Close() on operands that the recursion answers with (nil, nil); reported by this rule, fixed in /repo,
	// recorded in known_findings.json — no exception any more.)
}

func c42UnitsM11(c *c42ctx, p *core.Prog) []*c42unit {
	names := map[string]bool{"Store.TagValues": true, "makeTagValues": true}
	for n := range c42Bool {
		names[n] = true
	}
	for n := range c42Prod {
		names[n] = true
	}
	var sorted []string
	for n := range names {
		sorted = append(sorted, n)
	}
	sort.Strings(sorted)
	var units []*c42unit
	for _, n := range sorted {
		f := p.Func(tsdbP, n)
		if f == nil || f.Decl.Body == nil {
			continue
		}
		u := c.funcUnit(f)
		units = append(units, u)
		ast.Inspect(f.Decl.Body, func(x ast.Node) bool {
			if fl, ok := x.(*ast.FuncLit); ok {
				units = append(units, c.litUnit(f, fl, u.auth))
			}
			return true
		})
	}
	return units
}

func init() {
	extend("C42", "(7) complete-enumeration: in every listing function (and its literals) a loop over an iterator or a range is abandoned only at the end sentinel of the element just fetched, on an error, or — if the loop only searches for an authorized series — after an authorization gate said yes; a collecting loop is never left early; the value returned by Next() is read only after the end test said `more`; "+
		"(8) nil-result-guard: an iterator obtained from a call that may answer (nil, nil) is dereferenced only where `!= nil` was established (guard polarity), known unguarded uses are listed as suspected defects; "+
		"(9) comma-ok: the value of a type assertion / map lookup is read only where ok is true; "+
		"(10) error-edge: the branch of `err != nil || done` returns the error, never a literal nil; "+
		"(11) names-dispatch: measurementNamesByExpr / measurementNamesByPredicate evaluate a non-nil expression, send `_name` comparisons to the name filter and every other tag to the tag filter with (auth, e.Op, tag.Val, value, regex) taken from the matching sides, OR merges with Union and AND with Intersect of the recursion on e.LHS and e.RHS; "+
		"(12) exclude-polarity: measurementAuthorizedSeries answers true for an authorized series exactly when exclude is nil or exclude(tags) is false, for the tags of that series; "+
		"(13) residual-filter: tagValuesByKeyAndExpr records the tags of a series only if its residual expression is nil or the literal true; "+
		"(14) literal-condition: seriesByExprIterator answers the literal condition `true` (what tagValuesByKeyAndExpr substitutes for an absent series condition) with all series of the measurement and `false` with none; "+
		"(15) empty-answer: Store.TagKeys / Store.TagValues answer (nil, nil) only where no shard id was given.",
		nil, func(p *core.Prog, r *core.Report, tier string) {
			qp := p.Pkg(queryPk8)
			if qp == nil || p.Pkg(tsdbP) == nil {
				return
			}
			ao := qp.Types.Scope().Lookup("Authorizer")
			if ao == nil {
				return
			}
			c := &c42ctx{p: p, r: r, authT: ao.Type(), boolFn: map[*types.Func]bool{}, prodFn: map[*types.Func]bool{},
				graphs: map[*core.Func]map[*ast.FuncLit]*core.Graph{}, litUnits: map[*ast.FuncLit]bool{}}
			for n := range c42Bool {
				if f := p.Func(tsdbP, n); f != nil {
					c.boolFn[f.Obj] = true
				}
			}
			for n := range c42Prod {
				if f := p.Func(tsdbP, n); f != nil {
					c.prodFn[f.Obj] = true
				}
			}
			units := c42UnitsM11(c, p)

			// (7) complete enumeration
			loops := 0
			for _, u := range units {
				u := u
				var gate core.EdgePred
				if u.auth != nil {
					gate = u.fullGate()
				}
				exempt := func(il *core.IterLoopM11, esc core.LoopEscapeM11) string {
					why, ok := c42EarlyExitOK[u.name]
					if !ok || esc.Edge == nil {
						return ""
					}
					// only the break taken because <callee>(…) answered nil
					info := u.info()
					nilOf := core.ImpliesEdge8(func(x ast.Expr, val bool) bool {
						y, nonNilOnTrue, isTest := core.NilTest(info, x)
						if !isTest || val == nonNilOnTrue {
							return false
						}
						d, single := core.SingleDef(info, u.f.Decl.Body, core.ObjOf(info, y))
						return single && d.Rhs != nil && core.AsCall(info, d.Rhs, call(why.callee)) != nil
					})
					_, bodyN, _ := u.g.LoopNodes(il.Loop)
					if bodyN != nil && !u.g.Reach([]*core.Node{bodyN}, nil, nilOf)[esc.From] {
						return why.reason
					}
					return ""
				}
				loops += core.RuleIterProtocolM11(r, u.f, u.g, u.body, "complete-enumeration", u.construct(), gate, exempt)
			}
			r.Check(loops >= 25, "complete-enumeration", tsdbP, "loops:count", "-", fmt.Sprintf("%d enumerating loops examined (>= 25 confirmed by reading)", loops))

			// (8)(9)(10) per function
			seen := map[*core.Func]bool{}
			nilSites, okSites, errSites := 0, 0, 0
			for _, u := range units {
				if seen[u.f] {
					continue
				}
				seen[u.f] = true
				bad, n := core.NilResultUsesM11(p, u.f)
				nilSites += n
				reported := map[string]bool{}
				for _, b := range bad {
					key := b.Callee
					if reported[key] {
						continue
					}
					reported[key] = true
					if why, ok := c42NilUseKnown[u.f.Name][b.Callee]; ok {
						r.Ok("nil-result-guard", u.f.String(), b.G.Line(b.Use), "exception "+strings.TrimPrefix(b.Callee, "tsdb.")+": "+why)
						r.Note("C42 nil-result-guard, %s at %s: %s", u.f.String(), b.G.Line(b.Use), why)
						continue
					}
					r.Bad("nil-result-guard", u.f.String(), "unguarded-use:"+strings.TrimPrefix(b.Callee, "tsdb."), b.G.Line(b.Use),
						"the result of "+b.Callee+" may be nil (\"nothing there\") and is dereferenced on a path where `!= nil` was not established: an empty set makes the listing panic, or the guard is inverted and a non-empty set is answered with nothing")
				}
				if n > 0 && len(bad) == 0 {
					r.Ok("nil-result-guard", u.f.String(), u.f.Pos(), fmt.Sprintf("%d possibly-nil result(s) dereferenced only where non-nil was established", n))
				}
				okSites += core.RuleCommaOkM11(r, u.f, "comma-ok")
				errSites += core.RuleErrEdgeReturnsM11(r, u.f, "error-edge")
			}
			// anti-vacuity only: the counts on today's tree are 23 / 13 / 9; splitting a compound test or merging guards is a legitimate rewrite
			r.Check(nilSites >= 10, "nil-result-guard", tsdbP, "sites:count", "-", fmt.Sprintf("%d possibly-nil iterator results examined (>= 10)", nilSites))
			r.Check(okSites >= 6, "comma-ok", tsdbP, "sites:count", "-", fmt.Sprintf("%d comma-ok forms examined (>= 6)", okSites))
			r.Check(errSites >= 3, "error-edge", tsdbP, "sites:count", "-", fmt.Sprintf("%d compound error tests examined (>= 3)", errSites))

			c42NamesDispatchM11(p, r)
			c42ExcludePolarityM11(p, r)
			c42ResidualFilterM11(p, r)
			c42LiteralConditionM11(p, r)
			c42EmptyAnswerM11(p, r)
		})
}

// (15) empty-answer: Store.TagKeys / Store.TagValues answer (nil, nil) — "no
// keys / values at all" — only where no shard was asked for.
func c42EmptyAnswerM11(p *core.Prog, r *core.Report) {
	const rule = "empty-answer"
	for _, fn := range []string{"Store.TagKeys", "Store.TagValues"} {
		f := r.Need(p, tsdbP, fn)
		if f == nil {
			continue
		}
		info, g := f.Info(), f.Graph()
		var shards *types.Var
		sig := f.Obj.Type().(*types.Signature)
		for i := 0; i < sig.Params().Len(); i++ {
			if sl, ok := sig.Params().At(i).Type().(*types.Slice); ok {
				if b, ok := sl.Elem().(*types.Basic); ok && b.Kind() == types.Uint64 {
					shards = sig.Params().At(i)
				}
			}
		}
		if !r.Check(shards != nil, rule, f.String(), "shard-ids:absent", f.Pos(), "the function takes the shard ids to consult") {
			continue
		}
		noShards := core.EdgeEstablishing(core.FactThroughTempsM11(info, g.Body, core.NonZeroFact(info, func(e ast.Expr) bool {
			c, ok := ast.Unparen(e).(*ast.CallExpr)
			return ok && core.Builtin("len")(info, c) && len(c.Args) == 1 && core.ObjOf(info, c.Args[0]) == shards
		}, false, true)))
		n := 0
		for _, x := range g.Exits {
			rs, ok := x.N.(*ast.ReturnStmt)
			if !ok || len(rs.Results) != 2 || !core.IsNilIdent(info, rs.Results[0]) || !core.IsNilIdent(info, rs.Results[1]) {
				continue
			}
			n++
			r.Check(len(g.Bypassing8([]*core.Node{x}, noShards)) == 0, rule, f.String(), "nil-answer-with-shards", g.Line(x), "`return nil, nil` (nothing to list) is reachable only where len(shardIDs) == 0")
		}
		r.Check(n >= 1, rule, f.String(), "nil-answer:absent", f.Pos(), fmt.Sprintf("%d empty answers examined", n))
	}
}

// (14) literal-condition: tagValuesByKeyAndExpr replaces an absent series
// condition by the literal `true` and evaluates it with seriesByExprIterator;
// that literal must select every series of the measurement (and `false` none),
// otherwise SHOW TAG VALUES without a series condition lists nothing.
func c42LiteralConditionM11(p *core.Prog, r *core.Report) {
	const rule = "literal-condition"
	f := r.Need(p, tsdbP, "IndexSet.seriesByExprIterator")
	iqp := p.Pkg(influxqlPkg10)
	if f == nil || iqp == nil || iqp.Types == nil {
		return
	}
	info, g, body := f.Info(), f.Graph(), f.Decl.Body
	valF := core.LookupField(iqp.Types, "BooleanLiteral", "Val")
	var arm *core.TypeArm10
	for _, sw := range core.TypeSwitches10(info, body) {
		if core.ObjOf(info, sw.Operand) != f.Param(1) {
			continue
		}
		for i := range sw.Arms {
			for _, t := range sw.Arms[i].Types {
				if core.NamedName10(t) == "influxql.BooleanLiteral" {
					arm = &sw.Arms[i]
				}
			}
		}
	}
	if !r.Check(arm != nil && arm.Bound != nil && valF != nil, rule, f.String(), "arm:*influxql.BooleanLiteral:absent", f.Pos(), "the expression type switch has a *BooleanLiteral arm") {
		return
	}
	var entries []*core.Node
	for _, n := range g.Nodes {
		if n.N == nil || !core.InRegion(n, arm.Clause) {
			continue
		}
		for _, pe := range n.Pred {
			if !core.InRegion(pe.From, arm.Clause) {
				entries = append(entries, n)
				break
			}
		}
	}
	litIs := func(v bool) core.Leaf10 {
		raw := core.Leaf10(func(e ast.Expr) (bool, bool) {
			se, ok := ast.Unparen(e).(*ast.SelectorExpr)
			if ok && core.FieldOf(info, se) == valF && core.ObjOf(info, se.X) == arm.Bound {
				return v, true
			}
			return false, false
		})
		return throughTempsM11(p, info, body, func(core.EnvHD2) core.LeafEval { return core.LeafEval(raw) })
	}
	for _, v := range []bool{true, false} {
		reach := g.ReachUnder10(entries, func(n *core.Node) bool { return !core.InRegion(n, arm.Clause) }, litIs(v))
		nAll, nNil := 0, 0
		for n := range reach {
			rs, ok := n.N.(*ast.ReturnStmt)
			if !ok || !core.InRegion(n, arm.Clause) || len(rs.Results) == 0 {
				continue
			}
			if mc := callOf10(info, rs.Results[0], c15Meas); mc != nil && len(mc.Args) == 1 && core.ObjOf(info, mc.Args[0]) == f.Param(0) {
				nAll++
			} else if core.IsNilIdent(info, rs.Results[0]) && len(rs.Results) == 2 && core.IsNilIdent(info, rs.Results[1]) {
				nNil++
			}
		}
		good := (v && nAll >= 1 && nNil == 0) || (!v && nAll == 0 && nNil >= 1)
		r.Check(len(entries) > 0 && good, rule, f.String(), fmt.Sprintf("row:literal=%v", v), p.Pos(arm.Clause.Pos()),
			fmt.Sprintf("the literal condition %v selects all series of the measurement: %v, none: %v", v, nAll >= 1, nNil >= 1))
	}
}

// ---------------------------------------------------------------- (11) names-dispatch

func c42NamesDispatchM11(p *core.Prog, r *core.Report) {
	const rule = "names-dispatch"
	iqp := p.Pkg(influxqlPkg10)
	if iqp == nil || iqp.Types == nil {
		r.Bad("anchor", influxqlPkg10, "unresolved", "-", "package not loaded")
		return
	}
	iq := iqp.Types
	tok := func(n string) constant.Value {
		if k, ok := iq.Scope().Lookup(n).(*types.Const); ok {
			return k.Val()
		}
		return nil
	}
	opF := core.LookupField(iq, "BinaryExpr", "Op")
	lhsF := core.LookupField(iq, "BinaryExpr", "LHS")
	rhsF := core.LookupField(iq, "BinaryExpr", "RHS")
	valF := core.LookupField(iq, "VarRef", "Val")
	strValF := core.LookupField(iq, "StringLiteral", "Val")
	reValF := core.LookupField(iq, "RegexLiteral", "Val")
	if !r.Check(opF != nil && lhsF != nil && rhsF != nil && valF != nil && strValF != nil && reValF != nil, "anchor", "influxql expression fields", "unresolved", "-", "fields resolved") {
		return
	}
	const nameFilter = "tsdb.IndexSet.measurementNamesByNameFilter"
	for _, t := range []struct{ fn, tagFilter string }{
		{"IndexSet.measurementNamesByExpr", "tsdb.IndexSet.measurementNamesByTagFilter"},
		{"IndexSet.measurementNamesByPredicate", "tsdb.IndexSet.measurementNamesByTagPredicate"},
	} {
		f := r.Need(p, tsdbP, t.fn)
		if f == nil {
			continue
		}
		info, g, body := f.Info(), f.Graph(), f.Decl.Body
		self := "tsdb." + t.fn
		authP, exprP := f.Param(0), f.Param(1)
		isOp := func(e ast.Expr) bool { return core.FieldOf(info, e) == opF }
		isTagVal := func(e ast.Expr) bool { return core.FieldOf(info, e) == valF }
		exprNonNil := core.Leaf10(func(e ast.Expr) (bool, bool) {
			x, nonNilOnTrue, ok := core.NilTest(info, e)
			if ok && exprP != nil && core.ObjOf(info, x) == exprP {
				return nonNilOnTrue, true
			}
			return false, false
		})
		regexOp := func(v bool) core.Leaf10 {
			return core.CallLeaf10(info, call(influxqlPkg10+".IsRegexOp"), nil, v)
		}
		notSystem := core.CallLeaf10(info, call(influxqlPkg10+".IsSystemName"), nil, false)
		nameIs := func(v bool) core.Leaf10 {
			s := "_name"
			if !v {
				s = "\x00some other tag"
			}
			return core.ConstEqLeaf10(info, isTagVal, constant.MakeString(s))
		}
		obs := call(nameFilter, t.tagFilter, "pkg/bytesutil.Union", "pkg/bytesutil.Intersect")
		type row struct {
			label string
			leaf  core.Leaf10
			want  []string
		}
		var rows []row
		for _, op := range []string{"EQ", "NEQ", "EQREGEX", "NEQREGEX"} {
			re := strings.HasSuffix(op, "REGEX")
			base := core.Leaves10(exprNonNil, core.ConstEqLeaf10(info, isOp, tok(op)), regexOp(re))
			rows = append(rows,
				row{"_name " + op, core.Leaves10(base, nameIs(true)), []string{nameFilter}},
				row{"tag " + op, core.Leaves10(base, nameIs(false), notSystem), []string{t.tagFilter}})
		}
		rows = append(rows,
			row{"OR", core.Leaves10(exprNonNil, core.ConstEqLeaf10(info, isOp, tok("OR"))), []string{"pkg/bytesutil.Union"}},
			row{"AND", core.Leaves10(exprNonNil, core.ConstEqLeaf10(info, isOp, tok("AND"))), []string{"pkg/bytesutil.Intersect"}})
		for _, rw := range rows {
			reach := g.ReachUnder10([]*core.Node{g.Entry}, nil, rw.leaf)
			names, _ := g.CallsReached10(reach, obs)
			r.Check(sameSet10(names, rw.want), rule, f.String(), "row:"+rw.label, f.Pos(),
				fmt.Sprintf("a non-nil condition `%s` reaches exactly %s (found %s)", rw.label, setStr10(rw.want), setStr10(names)))
		}
		// the BinaryExpr arm: operands of the filters and of the merge
		var bin *core.TypeArm10
		for _, sw := range core.TypeSwitches10(info, body) {
			if core.ObjOf(info, sw.Operand) != exprP {
				continue
			}
			for i := range sw.Arms {
				for _, ty := range sw.Arms[i].Types {
					if core.NamedName10(ty) == "influxql.BinaryExpr" {
						bin = &sw.Arms[i]
					}
				}
			}
		}
		if !r.Check(bin != nil && bin.Bound != nil, rule, f.String(), "arm:*influxql.BinaryExpr:absent", f.Pos(), "type switch on expr has a *BinaryExpr arm") {
			continue
		}
		// x is `<bound>.<field>`
		sideOf := func(e ast.Expr) *types.Var {
			se, ok := ast.Unparen(e).(*ast.SelectorExpr)
			if !ok || core.ObjOf(info, se.X) != bin.Bound {
				return nil
			}
			return core.FieldOf(info, se)
		}
		// v was asserted from `<bound>.<side>` (comma-ok or plain), single definition
		assertedFrom := func(v types.Object) *types.Var {
			d, ok := core.SingleDef(info, body, v)
			if !ok || d.Rhs == nil {
				return nil
			}
			ta, ok := ast.Unparen(d.Rhs).(*ast.TypeAssertExpr)
			if !ok {
				return nil
			}
			return sideOf(ta.X)
		}
		// e is `<v>.<field>` with v asserted from side
		fieldOfAsserted := func(e ast.Expr, field, side *types.Var) bool {
			se, ok := ast.Unparen(e).(*ast.SelectorExpr)
			if !ok || core.FieldOf(info, se) != field {
				return false
			}
			v := core.ObjOf(info, se.X)
			return v != nil && assertedFrom(v) == side
		}
		// local only ever assigned <asserted from RHS>.<field> (besides its declaration)
		onlyFrom := func(e ast.Expr, field *types.Var) bool {
			v := core.ObjOf(info, e)
			if v == nil {
				return false
			}
			n := 0
			for _, d := range core.DefsOf(info, body, v) {
				if d.Rhs == nil {
					continue
				}
				n++
				if !fieldOfAsserted(d.Rhs, field, rhsF) {
					return false
				}
			}
			return n == 1
		}
		for _, cl := range core.AllCalls(info, bin.Clause, call(nameFilter, t.tagFilter)) {
			name := core.FName(core.Callee(info, cl))
			want := 4
			if name == t.tagFilter {
				want = 5
			}
			good := len(cl.Args) == want && core.ObjOf(info, cl.Args[0]) == authP && sideOf(cl.Args[1]) == opF
			if good && want == 5 {
				good = fieldOfAsserted(cl.Args[2], valF, lhsF)
			}
			if good {
				good = onlyFrom(cl.Args[want-2], strValF) && onlyFrom(cl.Args[want-1], reValF)
			}
			r.Check(good, rule, f.String(), "filter-args:"+strings.TrimPrefix(name, "tsdb.IndexSet."), p.Pos(cl.Pos()),
				"the filter gets (auth, e.Op, [tag key of e.LHS,] string value of e.RHS, regex of e.RHS)")
		}
		rec := core.AllCalls(info, bin.Clause, call(self))
		fields := map[*types.Var]*ast.CallExpr{}
		okRec := len(rec) >= 2
		for _, rc := range rec {
			if len(rc.Args) != 2 || core.ObjOf(info, rc.Args[0]) != authP || sideOf(rc.Args[1]) == nil {
				okRec = false
				continue
			}
			fields[sideOf(rc.Args[1])] = rc
		}
		r.Check(okRec && fields[lhsF] != nil && fields[rhsF] != nil && len(fields) == 2, rule, f.String(), "recursion-operands", p.Pos(bin.Clause.Pos()),
			"the AND/OR arm recurses with the own authorizer on e.LHS and on e.RHS")
		merges := core.AllCalls(info, bin.Clause, call("pkg/bytesutil.Union", "pkg/bytesutil.Intersect"))
		r.Check(len(merges) >= 2, rule, f.String(), "merges:absent", p.Pos(bin.Clause.Pos()), "union and intersection are built in the AND/OR arm")
		for _, mc := range merges {
			from := map[*ast.CallExpr]bool{}
			good := len(mc.Args) == 2
			if good {
				for _, a := range mc.Args {
					// operand: <v>.UnderlyingSlice() or <v>, v the result of one recursion
					// (also through a single-definition temporary: names := v.UnderlyingSlice())
					a := core.ResolveLocal(info, body, a)
					var src ast.Expr = a
					if uc, ok := ast.Unparen(a).(*ast.CallExpr); ok && len(uc.Args) == 0 {
						if se, ok := ast.Unparen(uc.Fun).(*ast.SelectorExpr); ok {
							src = se.X
						}
					}
					d := defCall10(info, body, src)
					if d == nil || (d != fields[lhsF] && d != fields[rhsF]) {
						good = false
					}
					from[d] = true
				}
			}
			r.Check(good && len(from) == 2, rule, f.String(), "merge-operands:"+core.FName(core.Callee(info, mc)), p.Pos(mc.Pos()),
				"the two merged lists are the results of the recursion on e.LHS and on e.RHS (one each)")
		}
	}
}

// callOrVarLeafM11 decides the atom that is a call accepted by match, or a
// boolean local whose single definition is such a call (a temporary).
func callOrVarLeafM11(info *types.Info, body ast.Node, match func(*ast.CallExpr) bool, val bool) core.Leaf10 {
	return func(e ast.Expr) (bool, bool) {
		e = ast.Unparen(e)
		if c, ok := e.(*ast.CallExpr); ok && match(c) {
			return val, true
		}
		if o := core.ObjOf(info, e); o != nil {
			if d, ok := core.SingleDef(info, body, o); ok && d.Rhs != nil && d.Index <= 0 {
				if c, ok := ast.Unparen(d.Rhs).(*ast.CallExpr); ok && match(c) {
					return val, true
				}
			}
		}
		return false, false
	}
}

// ---------------------------------------------------------------- (12) exclude polarity

func c42ExcludePolarityM11(p *core.Prog, r *core.Report) {
	const rule = "exclude-polarity"
	f := r.Need(p, tsdbP, "IndexSet.measurementAuthorizedSeries")
	if f == nil {
		return
	}
	info, g, body := f.Info(), f.Graph(), f.Decl.Body
	var excl *types.Var
	sig := f.Obj.Type().(*types.Signature)
	for i := 0; i < sig.Params().Len(); i++ {
		if _, ok := sig.Params().At(i).Type().Underlying().(*types.Signature); ok {
			excl = sig.Params().At(i)
		}
	}
	if !r.Check(excl != nil, rule, f.String(), "exclude-param:absent", f.Pos(), "the function takes an exclusion predicate over the tags of a series") {
		return
	}
	exclNil := func(isNil bool) core.Leaf10 {
		return func(e ast.Expr) (bool, bool) {
			x, nonNilOnTrue, ok := core.NilTest(info, e)
			if ok && core.ObjOf(info, x) == excl {
				return nonNilOnTrue != isNil, true
			}
			return false, false
		}
	}
	isExclCall := func(c *ast.CallExpr) bool { return core.ObjOf(info, c.Fun) == excl }
	// conditions may be named first (`excluded := exclude != nil && exclude(tags)`)
	viaTemps := func(l core.Leaf10) core.Leaf10 {
		return throughTempsM11(p, info, body, func(core.EnvHD2) core.LeafEval { return core.LeafEval(l) })
	}
	exclSays := func(v bool) core.Leaf10 { return callOrVarLeafM11(info, body, isExclCall, v) }
	retTrue := func(reach map[*core.Node]bool) int {
		n := 0
		for _, x := range g.Exits {
			rs, ok := x.N.(*ast.ReturnStmt)
			if ok && reach[x] && len(rs.Results) == 1 && core.IsConstBool8(info, rs.Results[0], true) {
				n++
			}
		}
		return n
	}
	// the gate and the continuation points
	asr := g.Select(g.Calling(call("influxql/query.Authorizer.AuthorizeSeriesRead")))
	if !r.Check(len(asr) == 1, rule, f.String(), "AuthorizeSeriesRead:absent", f.Pos(), "one per-series authorization") {
		return
	}
	if !r.Check(g.HasEdge8(g.CallFactEdge8(call("influxql/query.Authorizer.AuthorizeSeriesRead"), true)), rule, f.String(), "gate-edge:absent", g.Line(asr[0]), "the authorization is branched on") {
		return
	}
	// rows are evaluated from the authorization test itself, assumed true (it may share its condition with the exclusion test)
	gateTrue := asr
	asrM := call("influxql/query.Authorizer.AuthorizeSeriesRead")
	authorized := callOrVarLeafM11(info, body, func(c *ast.CallExpr) bool { return asrM(info, c) }, true)
	next := g.Calling(call("tsdb.SeriesIDIterator.Next"))
	for _, row := range []struct {
		label     string
		leaf      core.Leaf10
		wantTrue  bool
		wantAgain bool
	}{
		{"exclude=nil", exclNil(true), true, false},
		{"exclude(tags)=false", core.Leaves10(exclNil(false), exclSays(false)), true, false},
		{"exclude(tags)=true", core.Leaves10(exclNil(false), exclSays(true)), false, true},
	} {
		reach := g.ReachUnder10(gateTrue, next, viaTemps(core.Leaves10(authorized, row.leaf)))
		gotTrue := retTrue(reach) > 0
		again := false
		for n := range reach {
			if next(n) {
				again = true
			}
		}
		r.Check(gotTrue == row.wantTrue && again == row.wantAgain, rule, f.String(), "row:authorized,"+row.label, g.Line(asr[0]),
			fmt.Sprintf("for an authorized series with %s: answers true=%v (want %v), moves on to the next series=%v (want %v)", row.label, gotTrue, row.wantTrue, again, row.wantAgain))
	}
	// with an exclusion predicate there is no `true` without consulting it
	reach := g.ReachUnder10([]*core.Node{g.Entry}, nil, viaTemps(core.Leaves10(exclNil(false), exclSays(true))))
	r.Check(retTrue(reach) == 0, rule, f.String(), "true-without-exclude", f.Pos(), "with exclude != nil no `return true` is reachable unless exclude(tags) said false (also not through the open-authorizer shortcut)")
	// the predicate sees the tags of the series that was authorized
	okArgs := false
	for _, c := range core.AllCalls(info, body, func(i *types.Info, c *ast.CallExpr) bool { return isExclCall(c) }) {
		if len(c.Args) != 1 {
			continue
		}
		tv := core.ObjOf(info, c.Args[0])
		for _, ac := range core.AllCalls(info, body, call("influxql/query.Authorizer.AuthorizeSeriesRead")) {
			if len(ac.Args) == 3 && tv != nil && core.ObjOf(info, ac.Args[2]) == tv {
				if d, ok := core.SingleDef(info, body, tv); ok && d.Rhs != nil && core.AsCall(info, d.Rhs, call("tsdb.SeriesFile.Series")) != nil && d.Index == 1 {
					okArgs = true
				}
			}
		}
	}
	r.Check(okArgs, rule, f.String(), "exclude-argument", f.Pos(), "exclude is asked about the tags (SeriesFile.Series) of the very series that was authorized")
}

// ---------------------------------------------------------------- (13) residual filter

func c42ResidualFilterM11(p *core.Prog, r *core.Report) {
	const rule = "residual-filter"
	f := r.Need(p, tsdbP, "IndexSet.tagValuesByKeyAndExpr")
	iqp := p.Pkg(influxqlPkg10)
	tp := p.Pkg(tsdbP)
	if f == nil || iqp == nil || tp == nil {
		return
	}
	info, g, body := f.Info(), f.Graph(), f.Decl.Body
	exprF := core.LookupField(tp.Types, "SeriesIDElem", "Expr")
	litValF := core.LookupField(iqp.Types, "BooleanLiteral", "Val")
	if !r.Check(exprF != nil && litValF != nil, "anchor", "tsdb.SeriesIDElem.Expr / influxql.BooleanLiteral.Val", "unresolved", "-", "fields resolved") {
		return
	}
	var il *core.IterLoopM11
	for _, l := range core.IterLoopsM11(g, body) {
		if len(l.NextNodes) == 1 && l.Collecting {
			il = l
		}
	}
	if !r.Check(il != nil, rule, f.String(), "series-loop:absent", f.Pos(), "one collecting loop over the series iterator") {
		return
	}
	var elem types.Object
	for o := range il.Elems {
		elem = o
	}
	isResidual := func(e ast.Expr) bool {
		se, ok := ast.Unparen(core.ResolveLocal(info, body, e)).(*ast.SelectorExpr) // also through a single-definition temporary
		return ok && core.FieldOf(info, se) == exprF && core.ObjOf(info, se.X) == elem
	}
	// lit, ok := e.Expr.(*influxql.BooleanLiteral)
	var lit, litOk types.Object
	ast.Inspect(il.Loop, func(n ast.Node) bool {
		if as, ok := n.(*ast.AssignStmt); ok && len(as.Lhs) == 2 && len(as.Rhs) == 1 {
			if ta, ok := ast.Unparen(as.Rhs[0]).(*ast.TypeAssertExpr); ok && isResidual(ta.X) {
				if pt, ok := info.TypeOf(as.Lhs[0]).(*types.Pointer); ok && core.NamedName10(pt) == "influxql.BooleanLiteral" {
					lit, litOk = core.ObjOf(info, as.Lhs[0]), core.ObjOf(info, as.Lhs[1])
				}
			}
		}
		return true
	})
	if !r.Check(lit != nil && litOk != nil, rule, f.String(), "literal-assert:absent", f.Pos(), "the residual expression is inspected as a *BooleanLiteral") {
		return
	}
	residualNil := func(isNil bool) core.Leaf10 {
		return func(e ast.Expr) (bool, bool) {
			x, nonNilOnTrue, ok := core.NilTest(info, e)
			if ok && isResidual(x) {
				return nonNilOnTrue != isNil, true
			}
			return false, false
		}
	}
	litIs := func(v bool) core.Leaf10 {
		return core.Leaves10(core.ObjLeaf10(info, litOk, true), func(e ast.Expr) (bool, bool) {
			se, ok := ast.Unparen(e).(*ast.SelectorExpr)
			if ok && core.FieldOf(info, se) == litValF && core.ObjOf(info, se.X) == lit {
				return v, true
			}
			return false, false
		})
	}
	// the stores into the result sets
	own := core.DerivedLocalsM11(info, il.Loop, il.Elems)
	store := func(n *core.Node) bool {
		as, ok := n.N.(*ast.AssignStmt)
		if !ok || !core.InRegion(n, il.Loop) {
			return false
		}
		for _, lh := range as.Lhs {
			if _, isIx := ast.Unparen(lh).(*ast.IndexExpr); isIx && core.MentionsAnyM11(info, lh, own) {
				return true
			}
		}
		return false
	}
	if !r.Check(len(g.Select(store)) >= 1, rule, f.String(), "store:absent", f.Pos(), "tag values of a series are recorded") {
		return
	}
	start := core.After(il.NextNodes[0], nil)
	stopNext := func(n *core.Node) bool { return n == il.NextNodes[0] }
	for _, row := range []struct {
		label string
		leaf  core.Leaf10
		want  bool
	}{
		{"residual=nil", residualNil(true), true},
		{"residual=true", core.Leaves10(residualNil(false), litIs(true)), true},
		{"residual=false", core.Leaves10(residualNil(false), litIs(false)), false},
	} {
		reach := g.ReachUnder10(start, stopNext, row.leaf)
		got := false
		for n := range reach {
			if store(n) {
				got = true
			}
		}
		r.Check(got == row.want, rule, f.String(), "row:"+row.label, g.Line(il.NextNodes[0]),
			fmt.Sprintf("a series whose %s has its tag values recorded: %v (want %v)", row.label, got, row.want))
	}
}
