package rules

import (
	"fmt"
	"go/ast"
	"go/token"
	"go/types"

	"verif/checker/core"
)

// Strengthening of C43 (m6), driven by the survivors of the fault enumeration.
//
// (failure-propagates-x) almost all of the service's kv work happens inside the
// closures passed to store.Update / store.View and inside index visitors, which
// the failure-propagates post-pass does not visit; propagateXPass (c30x_m6.go)
// walks them: a failed Put / Insert / Delete / setAsDefault / getFirstBut /
// Unmarshal that lets the closure return nil commits a half-applied change
// (mapping without index entry, default entry pointing at a deleted mapping …).
//
// (filtered-collect) FindMany is how a (database, retention policy) pair is
// resolved: a mapping, stored or virtual, is collected only on the true branch
// of filterFunc(<that mapping>, <the caller's filter>).
//
// (filter-table) filterFunc is evaluated on every row of the decision table
// {filter field nil / equal / different} for the seven filter fields: it accepts
// exactly the mappings that agree with every field that is set.
//
// (create-id-fresh) Create never reaches store.Update when FindByID found a
// stored (non-virtual) mapping with the requested ID: overwriting it would leave
// the index entries of its old (org, database) pointing at a mapping of another
// database.

func init() {
	extend("C43", "(failure-propagates-x) failure propagation decided path-sensitively in the error variable and inside the transaction closures and index visitors of dbrp.Service; (filtered-collect) FindMany collects a stored or virtual mapping only on the true branch of filterFunc(mapping, filter); (filter-table) filterFunc, evaluated on the full decision table nil/equal/different of its seven filter fields, accepts exactly the mappings that agree with every set field; (create-id-fresh) Create reaches store.Update only if FindByID did not find a stored mapping with the requested ID; (virtual-default-demoted) once a collected mapping of the same database is known to be the default, FindMany appends a virtual mapping only after clearing its Default; (delete-applies) when FindByID found the mapping, Delete exits only through store.Update or a failed step.",
		nil, func(p *core.Prog, r *core.Report, tier string) {
			pk, root := p.Pkg(dbrpP), p.Pkg("")
			if pk == nil || root == nil {
				return
			}
			c43xCollect(p, r)
			c43xFilterTable(p, r, root.Types)
			c43xCreateFresh(p, r, pk.Types, root.Types)
			c43xVirtualDefault(p, r, root.Types)
			c43xDeleteApplies(p, r, pk.Types)
			propagateXPass(p, r)
		})
}

// ---------------------------------------------------------------- (filtered-collect)

func c43xCollect(p *core.Prog, r *core.Report) {
	const rule = "filtered-collect"
	f := r.Need(p, dbrpP, "Service.FindMany")
	if f == nil {
		return
	}
	info, body := f.Info(), f.Decl.Body
	sig, _ := f.Obj.Type().(*types.Signature)
	filter := sig.Params().At(1)
	g := f.Graph()
	var ms types.Object
	for _, x := range g.RealSuccessExits() {
		if rs, _ := x.N.(*ast.ReturnStmt); rs != nil && len(rs.Results) == 3 {
			ms = core.ObjOf(info, rs.Results[0])
		}
	}
	if !r.Check(ms != nil, rule, f.String(), "result-slice:absent", f.Pos(), "result slice identified") {
		return
	}
	ff := call(dbrpP + ".filterFunc")
	n := 0
	for _, lg := range f.Graphs() {
		for _, s := range appendSitesRW5(lg) {
			if s.dst != ms {
				continue
			}
			n++
			elem := core.BaseObj(info, core.StripAddrDeref(s.elem))
			good := func(cl *ast.CallExpr) bool {
				return len(cl.Args) == 2 && elem != nil && core.BaseObj(info, core.StripAddrDeref(cl.Args[0])) == elem && core.ObjOf(info, cl.Args[1]) == filter
			}
			direct := core.CallFact(info, ff, true, good)
			// or through a boolean temporary defined once from that call
			viaVar := func(a ast.Expr, v bool) bool {
				o := core.ObjOf(info, a)
				if o == nil || !v {
					return false
				}
				d, ok := core.SingleDef(info, body, o)
				if !ok || d.Rhs == nil {
					return false
				}
				cl := core.AsCall(info, d.Rhs, ff)
				return cl != nil && good(cl)
			}
			site := s.node
			bad := lg.NotReachableUnless(func(nd *core.Node) bool { return nd == site }, nil, core.EdgeEstablishing(core.AnyFact(direct, viaVar)))
			r.Check(len(bad) == 0, rule, f.String(), "collect-without-filter", lg.Line(s.node), "a mapping is appended to the result only on the true branch of filterFunc(<that mapping>, filter)")
		}
	}
	r.Check(n >= 2, rule, f.String(), "collect-sites:count", f.Pos(), fmt.Sprintf("%d places append to the result (stored and virtual mappings, >= 2 confirmed by reading)", n))
}

// ---------------------------------------------------------------- (delete-applies)

// Delete tolerates "no such mapping" (the error of FindByID); when FindByID
// FOUND the mapping, every exit that is not the failure of a later step passes
// store.Update — otherwise a delete is acknowledged while the mapping (and, if
// it was the default, the default entry) stays.
func c43xDeleteApplies(p *core.Prog, r *core.Report, pk *types.Package) {
	const rule = "delete-applies"
	f := r.Need(p, dbrpP, "Service.Delete")
	if f == nil {
		return
	}
	g, info := f.Graph(), f.Info()
	fStore := core.LookupField(pk, "Service", "store")
	isUpd := g.Calling(func(i *types.Info, cl *ast.CallExpr) bool {
		return call("kv.Store.Update")(i, cl) && core.FieldOf(i, core.Recv(cl)) == fStore
	})
	fns := g.Select(g.Calling(call(dbrpP + ".Service.FindByID")))
	if !r.Check(len(fns) == 1 && fStore != nil && len(g.Select(isUpd)) >= 1, rule, f.String(), "shape", f.Pos(), "one FindByID and the store.Update that deletes") {
		return
	}
	v := g.ErrVarOf(fns[0])
	if !r.Check(v != nil, rule, f.String(), "FindByID-error-not-kept", g.Line(fns[0]), "the error of FindByID is kept") {
		return
	}
	reach := g.ReachAfterSuccess(fns[0], isUpd, v, rowLeafM6(p, f, v, core.ErrIsNil), nil)
	ok, hit := true, false
	for _, n := range sortedNodes(reach) {
		if isUpd(n) {
			hit = true
			continue
		}
		if core.IsExit(n) {
			ok = false
			r.Bad(rule, f.String(), "found-not-deleted", g.Line(n), "although FindByID found the mapping, Delete can exit at "+g.Line(n)+" without store.Update and without a failed step")
			break
		}
	}
	if ok {
		r.Check(hit, rule, f.String(), "found-never-deleted", g.Line(fns[0]), "a mapping that FindByID found reaches store.Update")
	}
	_ = info
}

// ---------------------------------------------------------------- (virtual-default-demoted)

// A database has exactly one default: when a collected mapping of the same
// database is the default, a virtual mapping derived from a bucket name is
// appended only after its own Default was cleared.
func c43xVirtualDefault(p *core.Prog, r *core.Report, root *types.Package) {
	const rule = "virtual-default-demoted"
	f := r.Need(p, dbrpP, "Service.FindMany")
	if f == nil {
		return
	}
	g, info, body := f.Graph(), f.Info(), f.Decl.Body
	fDefault := core.LookupField(root, "DBRPMapping", "Default")
	fDB := core.LookupField(root, "DBRPMapping", "Database")
	var ms types.Object
	for _, x := range g.RealSuccessExits() {
		if rs, _ := x.N.(*ast.ReturnStmt); rs != nil && len(rs.Results) == 3 {
			ms = core.ObjOf(info, rs.Results[0])
		}
	}
	var virt types.Object
	var appendNode *core.Node
	for _, s := range appendSitesRW5(g) {
		if s.dst != ms || ms == nil {
			continue
		}
		o := core.ObjOf(info, s.elem)
		if d, ok := core.SingleDef(info, body, o); ok && d.Rhs != nil && core.AsCall(info, d.Rhs, call(dbrpP+".bucketToMapping")) != nil {
			virt, appendNode = o, s.node
		}
	}
	if !r.Check(virt != nil && fDefault != nil && fDB != nil, rule, f.String(), "virtual-append:absent", f.Pos(), "ms = append(ms, bucketToMapping(bucket)) found") {
		return
	}
	outer := g.EnclosingRange(appendNode)
	var inner *ast.RangeStmt
	if outer != nil {
		for _, rs := range core.RangeOver(outer.Body, func(e ast.Expr) bool { return core.ObjOf(info, e) == ms }) {
			inner = rs
		}
	}
	if !r.Check(inner != nil && inner.Value != nil, rule, f.String(), "compare-loop:absent", f.Pos(), "the loop comparing the virtual mapping with the collected ones was found") {
		return
	}
	mv := core.ObjOf(info, inner.Value)
	oHead, _, _ := g.LoopNodes(outer)
	iHead, iBody, _ := g.LoopNodes(inner)
	if !r.Check(oHead != nil && iHead != nil && iBody != nil, rule, f.String(), "loops:cfg", f.Pos(), "loops resolved in the CFG") {
		return
	}
	fieldOf := func(e ast.Expr, fld *types.Var, base types.Object) bool {
		se, ok := ast.Unparen(e).(*ast.SelectorExpr)
		return ok && core.FieldOf(info, se) == fld && core.BaseObj(info, se.X) == base
	}
	sameDB := core.EdgeEstablishing(func(a ast.Expr, v bool) bool {
		be, ok := ast.Unparen(a).(*ast.BinaryExpr)
		if !ok || !(be.Op == token.EQL && v || be.Op == token.NEQ && !v) {
			return false
		}
		return fieldOf(be.X, fDB, mv) && fieldOf(be.Y, fDB, virt) || fieldOf(be.Y, fDB, mv) && fieldOf(be.X, fDB, virt)
	})
	collectedIsDefault := core.EdgeEstablishing(func(a ast.Expr, v bool) bool { return v && fieldOf(a, fDefault, mv) })
	// nodes of an iteration that can be reached without knowing "same database"
	anyDB := g.Reach([]*core.Node{iBody}, func(n *core.Node) bool { return n == iHead || n == oHead }, sameDB)
	var tg []*core.Node
	for _, n := range g.Nodes {
		for _, e := range n.Succ {
			if collectedIsDefault(e) && (!anyDB[n] || sameDB(e)) {
				tg = append(tg, e.To)
			}
		}
	}
	demote := func(n *core.Node) bool {
		as, ok := n.N.(*ast.AssignStmt)
		if !ok || len(as.Lhs) != 1 || len(as.Rhs) != 1 || !fieldOf(as.Lhs[0], fDefault, virt) {
			return false
		}
		v, isC := core.ConstBool(info, as.Rhs[0])
		return isC && !v
	}
	if !r.Check(len(tg) >= 1 && len(g.Select(demote)) >= 1, rule, f.String(), "demotion:absent", f.Pos(), "FindMany tests whether a collected mapping of the same database is the default and clears the virtual mapping's Default") {
		return
	}
	// a virtual mapping that is not the default needs no demotion
	virtNotDefault := core.EdgeEstablishing(func(a ast.Expr, v bool) bool { return !v && fieldOf(a, fDefault, virt) })
	rr := g.Reach(tg, func(n *core.Node) bool { return demote(n) || n == oHead }, virtNotDefault)
	r.Check(!rr[appendNode], rule, f.String(), "two-defaults", g.Line(appendNode), "once a collected mapping of the same database is known to be the default, the virtual mapping is appended only after its Default was cleared (a database has exactly one default)")
}

// ---------------------------------------------------------------- (filter-table)

func c43xFilterTable(p *core.Prog, r *core.Report, root *types.Package) {
	const rule = "filter-table"
	f := r.Need(p, dbrpP, "filterFunc")
	if f == nil {
		return
	}
	// filter field -> mapping field (read from the two struct declarations)
	pairs := map[string]string{"ID": "ID", "OrgID": "OrganizationID", "BucketID": "BucketID", "Database": "Database", "RetentionPolicy": "RetentionPolicy", "Default": "Default", "Virtual": "Virtual"}
	st := core.StructOf(root, "DBRPMappingFilter")
	if !r.Check(st != nil, "anchor", "influxdb.DBRPMappingFilter", "unresolved", "-", "filter struct resolved") {
		return
	}
	var doms []core.DDomain
	var ffs []string
	for i := 0; i < st.NumFields(); i++ {
		fn := st.Field(i).Name()
		mf, known := pairs[fn]
		if !r.Check(known && core.LookupField(root, "DBRPMapping", mf) != nil, rule, "influxdb.DBRPMappingFilter."+fn, "field-not-in-table", "-", "filter field "+fn+" is covered by the decision table") {
			return
		}
		ffs = append(ffs, fn)
		doms = append(doms,
			core.DDomain{Path: "F." + fn, Values: []string{"nil", "ptr"}},
			core.DDomain{Path: "*F." + fn, Values: []string{"a", "b"}},
			core.DDomain{Path: "*D." + mf, Values: []string{"a"}}, // dbrp is a pointer parameter
		)
	}
	rows, bad := 0, 0
	first, und := "", ""
	core.EnumModels(doms, func(m core.DModel) {
		rows++
		res, u := core.EvalOn(p, f, m, []core.DVal{core.Path("D"), core.Path("F")}, nil, nil)
		if u != "" {
			if und == "" {
				und = u
			}
			return
		}
		want := true
		for _, fn := range ffs {
			if m["F."+fn] == "ptr" && m["*F."+fn] != m["*D."+pairs[fn]] {
				want = false
			}
		}
		got := res.Value == "true"
		if res.Panicked || (res.Value != "true" && res.Value != "false") || got != want {
			bad++
			if first == "" {
				first = fmt.Sprintf("row %s: filterFunc = %s (panic=%v), the mapping %s the filter", m.String(), res.Value, res.Panicked, map[bool]string{true: "matches", false: "does not match"}[want])
			}
		}
	})
	if und != "" {
		r.Bad(rule, f.String(), "undecided", f.Pos(), "filterFunc left the decidable fragment: "+und)
		return
	}
	r.Check(bad == 0 && rows >= 2187, rule, f.String(), "table", f.Pos(), fmt.Sprintf("%d rows, %d disagree with \"accept iff every set filter field equals the mapping's field\" %s", rows, bad, first))
}

// ---------------------------------------------------------------- (create-id-fresh)

func c43xCreateFresh(p *core.Prog, r *core.Report, pk, root *types.Package) {
	const rule = "create-id-fresh"
	f := r.Need(p, dbrpP, "Service.Create")
	if f == nil {
		return
	}
	g, info := f.Graph(), f.Info()
	fStore := core.LookupField(pk, "Service", "store")
	fID := core.LookupField(root, "DBRPMapping", "ID")
	fVirtual := core.LookupField(root, "DBRPMapping", "Virtual")
	if !r.Check(fStore != nil && fID != nil && fVirtual != nil, "anchor", "dbrp.Service.store / influxdb.DBRPMapping{ID,Virtual}", "unresolved", "-", "fields resolved") {
		return
	}
	sig, _ := f.Obj.Type().(*types.Signature)
	dbrp := sig.Params().At(1)
	isUpd := g.Calling(func(i *types.Info, cl *ast.CallExpr) bool {
		return call("kv.Store.Update")(i, cl) && core.FieldOf(i, core.Recv(cl)) == fStore
	})
	find := call(dbrpP + ".Service.FindByID")
	var fn *core.Node
	var found, ferr types.Object
	for _, n := range g.Select(g.Calling(find)) {
		as, ok := n.N.(*ast.AssignStmt)
		if !ok || len(as.Lhs) != 2 || len(as.Rhs) != 1 {
			continue
		}
		fc := core.AsCall(info, as.Rhs[0], find)
		if fc == nil || len(fc.Args) != 3 || core.FieldOf(info, fc.Args[2]) != fID || core.BaseObj(info, fc.Args[2]) != dbrp {
			continue
		}
		fn, found, ferr = n, core.ObjOf(info, as.Lhs[0]), core.ObjOf(info, as.Lhs[1])
	}
	if !r.Check(fn != nil && found != nil && ferr != nil && len(g.Select(isUpd)) >= 1, rule, f.String(), "FindByID(dbrp.ID):absent", f.Pos(), "Create looks for a mapping with the requested ID (result and error kept) before it writes") {
		return
	}
	rowNil := rowLeafM6(p, f, ferr, core.ErrIsNil)
	leaf := func(e ast.Expr) (bool, bool) {
		if v, known := rowNil(e); known {
			return v, true
		}
		if se, ok := ast.Unparen(e).(*ast.SelectorExpr); ok && core.FieldOf(info, se) == fVirtual && core.BaseObj(info, se.X) == found {
			return false, true // a stored mapping
		}
		return false, false
	}
	stop := func(n *core.Node) bool {
		return n != fn && (g.AssigningObj(found)(n) || g.AssigningObj(ferr)(n))
	}
	reach := g.ReachUnder(core.After(fn, nil), stop, core.LeafThroughTemps(info, f.Decl.Body, leaf))
	bad := false
	for _, n := range g.Select(isUpd) {
		if reach[n] {
			bad = true
		}
	}
	for _, n := range g.Select(stop) {
		if reach[n] {
			bad = true // the facts are lost before the decision is taken
		}
	}
	r.Check(!bad, rule, f.String(), "existing-id-overwritten", g.Line(fn), "when FindByID found a stored (non-virtual) mapping with the requested ID, store.Update is not reached")
	// and the lookup precedes the write
	pre := g.ReachFromEntry(func(n *core.Node) bool { return n == fn }, nil)
	for _, n := range g.Select(isUpd) {
		r.Check(!pre[n], rule, f.String(), "FindByID<store.Update", g.Line(n), "the ID lookup precedes the write")
	}
}
