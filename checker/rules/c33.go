package rules

import (
	"fmt"
	"go/ast"
	"go/constant"
	"go/token"
	"go/types"
	"sort"
	"strings"

	"verif/checker/core"
)

const (
	checkPk8 = "kit/check"
	runPk8   = "cmd/influxd/run"
)

func init() {
	register(&Prop{
		ID:       "C33",
		Patterns: []string{"./kit/check", "./http", "./cmd/influxd/run"},
		Level:    "other",
		Explanation: "Necessary-condition rules for the /health and /ready aggregation, decided on locksets, field types and CFG paths: " +
			"(1) guarded-by: Check.healthChecks/readyChecks/readyNames are only accessed under c.mu (read or write mode as needed), StartupProgressLogger.shardLoadErrs under shardLoadMu; " +
			"(2) atomic-typed: every gate/latch/counter/snapshot field (ReadyGate.ready, StartupProgressLogger.shardsCompleted/shardsTotal/done/failErrMsg, FreshnessResponse.snap, HealthReadyHandler.delegate) has a sync/atomic type; " +
			"(3) publication-order: StartupProgressLogger.Finish stores failErrMsg before done on the error path, always stores done=true, never stores the message after done; checkReady reports pass only where done.Load() is true and failErrMsg.Load() is nil; ReadyGate.Check passes only where ready.Load() is true, Ready/Unready store the constants true/false; " +
			"(4) registration-atomic: AddNamedReadyCheck appends the checker and its name with no unlock in between; " +
			"(5) aggregate: Check.evaluate calls Check on every snapshot element, appends every response on every path of the loop body, sets the overall status from the one cached Status() exactly where it is != StatusPass, and returns overall and all results; CheckHealth/CheckReady evaluate the health/ready snapshot respectively and the snapshots copy the matching field; the Status domain is the two constants pass/fail and no non-constant conversion to Status exists; " +
			"(6) http-status: HealthReadyHandler dispatches /health(/) to writeHealth and /ready(/) to writeReady, these call CheckHealth/CheckReady, set 503 exactly on the Status()==StatusFail branch (200 otherwise) and hand that status to writeJSON which writes it (500 only on a marshal error); failingChecks keeps exactly the responses whose Status() is fail; firstFailureMessage returns a message only from a failing check; " +
			"(7) freshness/pulse: FreshnessResponse.Status forwards the probe status only for a present, non-stale snapshot; SchedulerPulseCheck fails only where now is after When()+threshold.",
		NotCovered:  "interleavings as such (only the lock/atomic discipline is decided), the JSON body text, statuses other than pass/fail injected by foreign Response implementations, and which components register which checks in the launcher.",
		Assumptions: []string{"sync.RWMutex and sync/atomic give the usual visibility guarantees"},
		Run:         runC33,
	})
}

var checkLocks8 = &core.LockRules{
	Pkg: checkPk8,
	Guards: []core.Guard{
		{Type: "Check", Fields: []string{"healthChecks", "readyChecks", "readyNames"}, Locks: []string{"mu"}},
	},
	CallerHolds:  map[string]map[string]byte{},
	ExemptFunc:   map[string]string{},
	ExemptAccess: map[string]string{},
}

var startupLocks8 = &core.LockRules{
	Pkg: runPk8,
	Guards: []core.Guard{
		{Type: "StartupProgressLogger", Fields: []string{"shardLoadErrs"}, Locks: []string{"shardLoadMu"}},
	},
	CallerHolds:  map[string]map[string]byte{},
	ExemptFunc:   map[string]string{},
	ExemptAccess: map[string]string{},
}

func runC33(p *core.Prog, r *core.Report, tier string) {
	core.RuleLocks(r, p, checkLocks8, "guarded-by", 12)
	core.RuleLocks(r, p, startupLocks8, "guarded-by", 3)
	c33Atomic(p, r)
	c33Publication(p, r)
	c33Registration(p, r)
	c33Aggregate(p, r)
	c33HTTP(p, r)
	c33Freshness(p, r)
}

// ---------------------------------------------------------------- (2)

func c33Atomic(p *core.Prog, r *core.Report) {
	const rule = "atomic-typed"
	for _, t := range []struct{ pkg, typ, field string }{
		{checkPk8, "ReadyGate", "ready"},
		{checkPk8, "FreshnessResponse", "snap"},
		{runPk8, "StartupProgressLogger", "shardsCompleted"},
		{runPk8, "StartupProgressLogger", "shardsTotal"},
		{runPk8, "StartupProgressLogger", "done"},
		{runPk8, "StartupProgressLogger", "failErrMsg"},
		{httpPk8, "HealthReadyHandler", "delegate"},
	} {
		pk := p.Pkg(t.pkg)
		if pk == nil {
			r.Bad("anchor", t.pkg, "unresolved", "-", "package not loaded")
			continue
		}
		fv := core.LookupField(pk.Types, t.typ, t.field)
		name := t.pkg + "." + t.typ + "." + t.field
		if !r.Check(fv != nil, "anchor", name, "unresolved", "-", "field resolved") {
			continue
		}
		ok := false
		if nt, isNamed := fv.Type().(*types.Named); isNamed && nt.Obj().Pkg() != nil && nt.Obj().Pkg().Path() == "sync/atomic" {
			ok = true
		}
		r.Check(ok, rule, name, "not-atomic", p.Pos(fv.Pos()), "field has type "+fv.Type().String()+" (sync/atomic type: every access is an atomic operation)")
	}
}

// ---------------------------------------------------------------- (3)

func atomicOn8(field *types.Var, op string) core.Matcher {
	return core.MethodOnField8(field, "sync/atomic.*."+op)
}

func c33Publication(p *core.Prog, r *core.Report) {
	const rule = "publication-order"
	pk := p.Pkg(runPk8)
	if pk == nil {
		r.Bad("anchor", runPk8, "unresolved", "-", "package not loaded")
		return
	}
	done := core.LookupField(pk.Types, "StartupProgressLogger", "done")
	msg := core.LookupField(pk.Types, "StartupProgressLogger", "failErrMsg")
	if done == nil || msg == nil {
		return // reported by c33Atomic
	}
	if f := r.Need(p, runPk8, "StartupProgressLogger.Finish"); f != nil {
		g := f.Graph()
		info := f.Info()
		dS, mS := g.Select(g.Calling(atomicOn8(done, "Store"))), g.Select(g.Calling(atomicOn8(msg, "Store")))
		if r.Check(len(dS) >= 1 && len(mS) >= 1, rule, f.String(), "stores:absent", f.Pos(), fmt.Sprintf("done.Store ×%d, failErrMsg.Store ×%d", len(dS), len(mS))) {
			// every exit passes done.Store(true)
			core.RuleMustPassN(r, f, g, rule, "done.Store", g.Calling(atomicOn8(done, "Store")), nil)
			okTrue := true
			for _, n := range dS {
				for _, c := range core.CallsIn(info, n.N, atomicOn8(done, "Store"), core.WalkOpts{}) {
					if len(c.Args) != 1 || !core.IsConstBool8(info, c.Args[0], true) {
						okTrue = false
					}
				}
			}
			r.Check(okTrue, rule, f.String(), "done-value", g.Line(dS[0]), "done is stored as the constant true")
			// error path: message before done
			var errParam types.Object
			if ps := f.Obj.Type().(*types.Signature).Params(); ps.Len() == 1 {
				errParam = ps.At(0)
			}
			failEdge := g.NilFactEdge8(func(x ast.Expr) bool { return core.ObjOf(info, x) == errParam && errParam != nil }, false)
			if r.Check(g.HasEdge8(failEdge), rule, f.String(), "err-test:absent", f.Pos(), "Finish branches on err != nil") {
				bad := false
				for _, n := range g.Nodes {
					for _, e := range n.Succ {
						if !failEdge(e) {
							continue
						}
						reach := g.Reach([]*core.Node{e.To}, g.Calling(atomicOn8(msg, "Store")), nil)
						for _, d := range dS {
							if reach[d] {
								bad = true
							}
						}
						for _, x := range g.Exits {
							if reach[x] {
								bad = true
							}
						}
					}
				}
				r.Check(!bad, rule, f.String(), "done-before-message", g.Line(dS[0]), "with a non-nil err, done.Store is reached only after failErrMsg.Store (a reader that sees done also sees the failure)")
			}
			// the message is never stored after done
			after := g.Reach(func() []*core.Node {
				var s []*core.Node
				for _, d := range dS {
					s = append(s, core.After(d, nil)...)
				}
				return s
			}(), nil, nil)
			bad := false
			for _, m := range mS {
				if after[m] {
					bad = true
				}
			}
			r.Check(!bad, rule, f.String(), "message-after-done", g.Line(mS[0]), "failErrMsg.Store is not reachable after done.Store")
			// message only for non-nil err
			core.RuleOnlyVia8(r, f, g, rule, "failErrMsg.Store", "err != nil", g.Calling(atomicOn8(msg, "Store")), failEdge, 1)
		}
	}
	passCtor := call("kit/check.Pass", "kit/check.Info", "kit/check.NamedPass")
	if f := r.Need(p, runPk8, "StartupProgressLogger.checkReady"); f != nil {
		g := f.Graph()
		info := f.Info()
		passN := g.Calling(passCtor)
		core.RuleOnlyVia8(r, f, g, "ready-latch", "pass-response", "done.Load()==true", passN, g.CallFactEdge8(atomicOn8(done, "Load"), true), 1)
		// failErrMsg.Load() result is nil
		var loaded types.Object
		ast.Inspect(f.Decl.Body, func(n ast.Node) bool {
			if as, ok := n.(*ast.AssignStmt); ok && len(as.Lhs) == 1 && len(as.Rhs) == 1 {
				if c, ok := as.Rhs[0].(*ast.CallExpr); ok && atomicOn8(msg, "Load")(info, c) {
					loaded = core.ObjOf(info, as.Lhs[0])
				}
			}
			return true
		})
		noMsg := g.NilFactEdge8(func(x ast.Expr) bool {
			if loaded != nil && core.ObjOf(info, x) == loaded {
				return true
			}
			c, ok := x.(*ast.CallExpr)
			return ok && atomicOn8(msg, "Load")(info, c)
		}, true)
		core.RuleOnlyVia8(r, f, g, "ready-latch", "pass-response/no-failure", "failErrMsg.Load()==nil", passN, noMsg, 1)
		// every other exit is a Fail
		okExits := true
		for _, x := range g.Exits {
			rs, ok := x.N.(*ast.ReturnStmt)
			if !ok || len(rs.Results) != 1 {
				okExits = false
				continue
			}
			c, ok := ast.Unparen(rs.Results[0]).(*ast.CallExpr)
			if !ok || !(passCtor(info, c) || call("kit/check.Fail", "kit/check.NamedFail", "kit/check.Error")(info, c)) {
				okExits = false
			}
		}
		r.Check(okExits, "ready-latch", f.String(), "exit-form", f.Pos(), "every exit returns a pass or fail constructor directly")
	}
	// ReadyGate
	cpk := p.Pkg(checkPk8)
	if cpk == nil {
		return
	}
	ready := core.LookupField(cpk.Types, "ReadyGate", "ready")
	if ready == nil {
		return
	}
	if f := r.Need(p, checkPk8, "ReadyGate.Check"); f != nil {
		g := f.Graph()
		core.RuleOnlyVia8(r, f, g, "ready-latch", "pass-response", "ready.Load()==true", g.Calling(passCtor), g.CallFactEdge8(atomicOn8(ready, "Load"), true), 1)
		// and where ready is true, only pass
		failCtor := call("kit/check.Fail", "kit/check.NamedFail", "kit/check.Error")
		core.RuleOnlyVia8(r, f, g, "ready-latch", "fail-response", "ready.Load()==false", g.Calling(failCtor), g.CallFactEdge8(atomicOn8(ready, "Load"), false), 1)
	}
	for _, t := range []struct {
		fn  string
		val bool
	}{{"ReadyGate.Ready", true}, {"ReadyGate.Unready", false}} {
		if f := r.Need(p, checkPk8, t.fn); f != nil {
			info := f.Info()
			cs := core.AllCalls(info, f.Decl.Body, atomicOn8(ready, "Store"))
			ok := len(cs) == 1 && len(cs[0].Args) == 1 && core.IsConstBool8(info, cs[0].Args[0], t.val)
			r.Check(ok, "ready-latch", f.String(), "store-value", f.Pos(), fmt.Sprintf("stores the constant %v into ready", t.val))
			if ok {
				core.RuleMustPassN(r, f, f.Graph(), "ready-latch", "ready.Store", f.Graph().Calling(atomicOn8(ready, "Store")), nil)
			}
		}
	}
}

// ---------------------------------------------------------------- (4)

func c33Registration(p *core.Prog, r *core.Report) {
	const rule = "registration-atomic"
	pk := p.Pkg(checkPk8)
	if pk == nil {
		return
	}
	f := r.Need(p, checkPk8, "Check.AddNamedReadyCheck")
	if f == nil {
		return
	}
	g := f.Graph()
	info := f.Info()
	rc, rn := core.LookupField(pk.Types, "Check", "readyChecks"), core.LookupField(pk.Types, "Check", "readyNames")
	a, b := g.Select(g.Assigning(rc)), g.Select(g.Assigning(rn))
	if !r.Check(len(a) == 1 && len(b) == 1, rule, f.String(), "appends:absent", f.Pos(), "one append to readyChecks and one to readyNames") {
		return
	}
	unlock := g.Calling(call("sync.RWMutex.Unlock", "sync.Mutex.Unlock", "sync.RWMutex.RUnlock"))
	between := g.Reach(core.After(a[0], nil), func(n *core.Node) bool { return n == b[0] }, nil)
	between2 := g.Reach(core.After(b[0], nil), func(n *core.Node) bool { return n == a[0] }, nil)
	bad := false
	// whichever comes first, the other must follow on every path with no unlock in between
	first, second, mid := a[0], b[0], between
	if between2[a[0]] && !between[b[0]] {
		first, second, mid = b[0], a[0], between2
	}
	for n := range mid {
		if unlock(n) {
			bad = true
		}
	}
	_ = first
	ex := exitsReachable8(g, core.After(first, nil), func(n *core.Node) bool { return n == second })
	r.Check(!bad && len(ex) == 0, rule, f.String(), "split-critical-section", g.Line(a[0]), "after the first append every path reaches the second one without releasing c.mu (names and checkers stay index-aligned)")
	// the name appended is nc.CheckName() of the checker appended
	var nc types.Object
	if ps := f.Obj.Type().(*types.Signature).Params(); ps.Len() == 1 {
		nc = ps.At(0)
	}
	okA, okB := false, false
	for _, c := range core.CallsIn(info, a[0].N, core.Builtin("append"), core.WalkOpts{}) {
		if len(c.Args) == 2 && core.ObjOf(info, c.Args[1]) == nc {
			okA = true
		}
	}
	for _, c := range core.CallsIn(info, b[0].N, core.Builtin("append"), core.WalkOpts{}) {
		if len(c.Args) == 2 {
			if cc, ok := ast.Unparen(c.Args[1]).(*ast.CallExpr); ok && call("kit/check.NamedChecker.CheckName")(info, cc) {
				if se, ok := cc.Fun.(*ast.SelectorExpr); ok && core.ObjOf(info, se.X) == nc {
					okB = true
				}
			}
		}
	}
	r.Check(okA && okB, rule, f.String(), "appended-values", g.Line(a[0]), "appends nc and nc.CheckName()")
}

// ---------------------------------------------------------------- (5)

func c33Aggregate(p *core.Prog, r *core.Report) {
	const rule = "aggregate"
	pk := p.Pkg(checkPk8)
	if pk == nil {
		r.Bad("anchor", checkPk8, "unresolved", "-", "package not loaded")
		return
	}
	// status domain
	consts := core.ConstsOfType(pk.Types, "Status")
	var names []string
	vals := map[string]bool{}
	for n, c := range consts {
		names = append(names, n)
		vals[c.Val().ExactString()] = true
	}
	sort.Strings(names)
	r.Check(len(consts) == 2 && consts["StatusPass"] != nil && consts["StatusFail"] != nil && len(vals) == 2, rule, checkPk8+".Status", "domain", "-",
		"Status constants are exactly {StatusPass, StatusFail} with distinct values (found "+strings.Join(names, ",")+"): `!= pass` and `== fail` coincide")
	stType := pk.Types.Scope().Lookup("Status")
	convs := 0
	for _, pkg := range []string{checkPk8, httpPk8, runPk8} {
		for _, f := range p.Funcs(pkg) {
			if f.Decl.Body == nil {
				continue
			}
			info := f.Info()
			ast.Inspect(f.Decl.Body, func(n ast.Node) bool {
				c, ok := n.(*ast.CallExpr)
				if !ok || len(c.Args) != 1 {
					return true
				}
				tv := info.Types[c.Fun]
				if !tv.IsType() || stType == nil || !types.Identical(tv.Type, stType.Type()) {
					return true
				}
				if av := info.Types[c.Args[0]]; av.Value == nil {
					convs++
					r.Saw(f)
					r.Bad(rule, f.String(), "status-conversion", p.Pos(c.Pos()), "a non-constant value is converted to check.Status: the pass/fail domain is no longer closed")
				}
				return true
			})
		}
	}
	if convs == 0 {
		r.Ok(rule, checkPk8+".Status", "-", "no non-constant conversion to Status in kit/check, http, cmd/influxd/run")
	}

	f := r.Need(p, checkPk8, "Check.evaluate")
	if f != nil {
		g := f.Graph()
		info := f.Info()
		sig := f.Obj.Type().(*types.Signature)
		var snap types.Object
		if sig.Params().Len() == 3 {
			snap = sig.Params().At(2)
		}
		// checks := snap()
		var checks types.Object
		ast.Inspect(f.Decl.Body, func(n ast.Node) bool {
			if as, ok := n.(*ast.AssignStmt); ok && len(as.Lhs) == 1 && len(as.Rhs) == 1 {
				if c, ok := as.Rhs[0].(*ast.CallExpr); ok && snap != nil && core.ObjOf(info, c.Fun) == snap {
					checks = core.ObjOf(info, as.Lhs[0])
				}
			}
			return true
		})
		r.Check(checks != nil && len(core.AssignsTo8(info, f.Decl.Body, checks)) == 1, rule, f.String(), "snapshot", f.Pos(), "the checker list is taken once from the snapshot callback")
		// the loop ranges over it
		var loop *ast.RangeStmt
		ast.Inspect(f.Decl.Body, func(n ast.Node) bool {
			if rs, ok := n.(*ast.RangeStmt); ok && checks != nil && core.ObjOf(info, rs.X) == checks {
				loop = rs
			}
			return true
		})
		if r.Check(loop != nil && loop.Value != nil, rule, f.String(), "loop:absent", f.Pos(), "evaluate ranges over every snapshot element") {
			elem := core.ObjOf(info, loop.Value)
			doCheck := call("kit/check.Checker.Check")
			cn := g.Select(func(n *core.Node) bool {
				for _, c := range core.CallsIn(info, n.N, doCheck, core.WalkOpts{}) {
					if se, ok := c.Fun.(*ast.SelectorExpr); ok && core.ObjOf(info, se.X) == elem {
						return true
					}
				}
				return false
			})
			if r.Check(len(cn) == 1, rule, f.String(), "Check-call:absent", p.Pos(loop.Pos()), "each element's Check is called") {
				var resp types.Object
				if as, ok := cn[0].N.(*ast.AssignStmt); ok && len(as.Lhs) == 1 {
					resp = core.ObjOf(info, as.Lhs[0])
				}
				// every iteration starts with the Check call: from the loop head, the body's first effect
				// every path from the Check call back to the loop head (or out) passes append(results, resp)
				var results types.Object
				appendN := g.Select(func(n *core.Node) bool {
					as, ok := n.N.(*ast.AssignStmt)
					if !ok || len(as.Lhs) != 1 || len(as.Rhs) != 1 {
						return false
					}
					c, ok := as.Rhs[0].(*ast.CallExpr)
					if !ok || !core.Builtin("append")(info, c) || len(c.Args) != 2 || core.ObjOf(info, c.Args[1]) != resp || resp == nil {
						return false
					}
					if core.ObjOf(info, c.Args[0]) != core.ObjOf(info, as.Lhs[0]) {
						return false
					}
					results = core.ObjOf(info, as.Lhs[0])
					return true
				})
				if r.Check(len(appendN) == 1, rule, f.String(), "append:absent", g.Line(cn[0]), "the response is appended to the result list") {
					// paths from after Check that reach the loop head again or an exit without the append
					reach := g.Reach(core.After(cn[0], nil), func(n *core.Node) bool { return n == appendN[0] }, nil)
					bad := reach[cn[0]]
					for _, x := range g.Exits {
						if reach[x] {
							bad = true
						}
					}
					r.Check(!bad, rule, f.String(), "response-dropped", g.Line(appendN[0]), "after a Check call every path appends its response before the next iteration or the return")
					// the Check call is on every path through the loop body: from the append, the next append needs a Check in between
					reach2 := g.Reach(core.After(appendN[0], nil), func(n *core.Node) bool { return n == cn[0] }, nil)
					r.Check(!reach2[appendN[0]], rule, f.String(), "stale-response", g.Line(appendN[0]), "between two appends a fresh Check call happens")
				}
				// overall
				var overall, cached types.Object
				setN := g.Select(func(n *core.Node) bool {
					as, ok := n.N.(*ast.AssignStmt)
					if !ok || as.Tok != token.ASSIGN || len(as.Lhs) != 1 || len(as.Rhs) != 1 {
						return false
					}
					lo, ro := core.ObjOf(info, as.Lhs[0]), core.ObjOf(info, as.Rhs[0])
					if lo == nil || ro == nil || stType == nil || !types.Identical(lo.Type(), stType.Type()) {
						return false
					}
					// rhs assigned from resp.Status()
					for _, a := range core.AssignsTo8(info, f.Decl.Body, ro) {
						if c, ok := a.Rhs.(*ast.CallExpr); ok && call("kit/check.Response.Status")(info, c) {
							if se, ok := c.Fun.(*ast.SelectorExpr); ok && core.ObjOf(info, se.X) == resp {
								overall, cached = lo, ro
								return true
							}
						}
					}
					return false
				})
				if r.Check(len(setN) == 1 && overall != nil, rule, f.String(), "overall-update:absent", g.Line(cn[0]), "the overall status is updated from the cached resp.Status()") {
					passC, failC := types.Object(consts["StatusPass"]), types.Object(consts["StatusFail"])
					// the domain is {pass, fail}: `!= pass` and `== fail` are the same fact
					notPass := core.CmpFactEdge8(func(c core.Cmp8) bool {
						if core.ObjOf(info, c.L) != cached {
							return false
						}
						o := selObj8(info, c.R)
						return o != nil && ((c.Op == token.NEQ && o == passC) || (c.Op == token.EQL && o == failC))
					})
					isPass := core.CmpFactEdge8(func(c core.Cmp8) bool {
						if core.ObjOf(info, c.L) != cached {
							return false
						}
						o := selObj8(info, c.R)
						return o != nil && ((c.Op == token.EQL && o == passC) || (c.Op == token.NEQ && o == failC))
					})
					core.RuleOnlyVia8(r, f, g, rule, "overall-update", "status != StatusPass", func(n *core.Node) bool { return n == setN[0] }, notPass, 1)
					// from the not-pass edge, every path passes the update before the next iteration/exit
					bad := false
					for _, n := range g.Nodes {
						for _, e := range n.Succ {
							if notPass(e) {
								reach := g.Reach([]*core.Node{e.To}, func(x *core.Node) bool { return x == setN[0] }, nil)
								if reach[cn[0]] {
									bad = true
								}
								for _, x := range g.Exits {
									if reach[x] {
										bad = true
									}
								}
							}
						}
					}
					r.Check(!bad && g.HasEdge8(isPass), rule, f.String(), "failure-ignored", g.Line(setN[0]), "a non-pass status always reaches the overall update")
					// all assignments of overall: the initial StatusPass constant and that update
					okInit := true
					as := core.AssignsTo8(info, f.Decl.Body, overall)
					for _, a := range as {
						if a.Stmt == setN[0].N {
							continue
						}
						if a.Rhs == nil || selObj8(info, a.Rhs) != passC || passC == nil {
							okInit = false
						}
					}
					r.Check(okInit && len(as) == 2, rule, f.String(), "overall-init", f.Pos(), "overall starts as StatusPass and is only changed by a non-pass check")
					// Status() is called once per response (the cached value decides)
					nStatus := 0
					for _, c := range core.AllCalls(info, f.Decl.Body, call("kit/check.Response.Status")) {
						if se, ok := c.Fun.(*ast.SelectorExpr); ok && core.ObjOf(info, se.X) == resp {
							nStatus++
						}
					}
					r.Check(nStatus == 1, rule, f.String(), "status-read-twice", f.Pos(), "resp.Status() is read once (a stateful response could differ between reads)")
					// returned aggregate carries overall and results
					okRet := false
					for _, x := range g.Exits {
						rs, ok := x.N.(*ast.ReturnStmt)
						if !ok || len(rs.Results) != 1 {
							continue
						}
						if c, ok := ast.Unparen(rs.Results[0]).(*ast.CallExpr); ok && call("kit/check.NewBasicResponse")(info, c) && len(c.Args) == 4 {
							okRet = core.ObjOf(info, c.Args[1]) == overall && core.ObjOf(info, c.Args[3]) == results && results != nil
						}
					}
					r.Check(okRet, rule, f.String(), "returned-aggregate", f.Pos(), "returns NewBasicResponse(name, overall, …, results)")
				}
			}
		}
	}
	// CheckHealth / CheckReady pairing and snapshots
	for _, t := range []struct{ fn, snap, field string }{
		{"Check.CheckHealth", "snapshotHealth", "healthChecks"},
		{"Check.CheckReady", "snapshotReady", "readyChecks"},
	} {
		if cf := r.Need(p, checkPk8, t.fn); cf != nil {
			info := cf.Info()
			ok := false
			for _, c := range core.AllCalls(info, cf.Decl.Body, call("kit/check.Check.evaluate")) {
				if len(c.Args) == 3 {
					if se, isSel := ast.Unparen(c.Args[2]).(*ast.SelectorExpr); isSel {
						if fn, isFn := info.Uses[se.Sel].(*types.Func); isFn && fn.Name() == t.snap {
							ok = true
						}
					}
				}
			}
			r.Check(ok, rule, cf.String(), "snapshot-pairing", cf.Pos(), t.fn+" evaluates "+t.snap)
			core.RuleMustPass(r, cf, rule, "evaluate", call("kit/check.Check.evaluate"), false)
		}
		if sf := r.Need(p, checkPk8, "Check."+t.snap); sf != nil {
			info := sf.Info()
			fv := core.LookupField(pk.Types, "Check", t.field)
			ok := false
			for _, x := range sf.Graph().Exits {
				rs, isRet := x.N.(*ast.ReturnStmt)
				if !isRet || len(rs.Results) != 1 {
					continue
				}
				// a copy: append(nil-slice, field...)
				// (seen through a single-definition temporary: `out := append(…); unlock; return out`)
				if c, isCall := ast.Unparen(core.ResolveLocal(info, sf.Decl.Body, rs.Results[0])).(*ast.CallExpr); isCall && core.Builtin("append")(info, c) && c.Ellipsis.IsValid() && len(c.Args) == 2 && core.FieldOf(info, c.Args[1]) == fv && fv != nil {
					ok = core.FieldOf(info, c.Args[0]) == nil
				}
			}
			r.Check(ok, rule, sf.String(), "snapshot-field", sf.Pos(), t.snap+" returns a fresh copy of "+t.field)
		}
	}
}

// ---------------------------------------------------------------- (6)

func c33HTTP(p *core.Prog, r *core.Report) {
	const rule = "http-status"
	pk := p.Pkg(httpPk8)
	cpk := p.Pkg(checkPk8)
	if pk == nil || cpk == nil {
		r.Bad("anchor", httpPk8, "unresolved", "-", "package not loaded")
		return
	}
	failC, _ := cpk.Types.Scope().Lookup("StatusFail").(*types.Const)
	passC, _ := cpk.Types.Scope().Lookup("StatusPass").(*types.Const)
	if !r.Check(failC != nil && passC != nil, "anchor", checkPk8+".StatusFail", "unresolved", "-", "constants resolved") {
		return
	}
	// is the edge one on which `X.Status()` is known to be non-pass (== fail or != pass)
	nonPass := func(info *types.Info, recvOK func(ast.Expr) bool) core.EdgePred {
		return core.CmpFactEdge8(func(c core.Cmp8) bool {
			sc, ok := c.L.(*ast.CallExpr)
			if !ok || !call("kit/check.Response.Status", "kit/check.BasicResponse.Status")(info, sc) {
				return false
			}
			if se, ok := sc.Fun.(*ast.SelectorExpr); !ok || !recvOK(se.X) {
				return false
			}
			o := selObj8(info, c.R)
			return (c.Op == token.EQL && o == failC) || (c.Op == token.NEQ && o == passC)
		})
	}
	for _, t := range []struct{ fn, chk string }{
		{"HealthReadyHandler.writeHealth", "kit/check.Check.CheckHealth"},
		{"HealthReadyHandler.writeReady", "kit/check.Check.CheckReady"},
	} {
		f := r.Need(p, httpPk8, t.fn)
		if f == nil {
			continue
		}
		g := f.Graph()
		info := f.Info()
		cn := g.Select(g.Calling(call(t.chk)))
		other := g.Select(g.Calling(call("kit/check.Check.CheckHealth", "kit/check.Check.CheckReady")))
		if !r.Check(len(cn) == 1 && len(other) == 1, rule, f.String(), "check-call", f.Pos(), "calls exactly "+t.chk) {
			continue
		}
		var resp types.Object
		if as, ok := cn[0].N.(*ast.AssignStmt); ok && len(as.Lhs) == 1 {
			resp = core.ObjOf(info, as.Lhs[0])
		}
		gate := nonPass(info, func(x ast.Expr) bool { return resp != nil && core.ObjOf(info, x) == resp })
		// the status variable handed to writeJSON
		var status types.Object
		wj := g.Select(g.Calling(call("http.HealthReadyHandler.writeJSON")))
		if r.Check(len(wj) == 1, rule, f.String(), "writeJSON:absent", f.Pos(), "the response is written through writeJSON") {
			for _, c := range core.CallsIn(info, wj[0].N, call("http.HealthReadyHandler.writeJSON"), core.WalkOpts{}) {
				if len(c.Args) == 4 {
					status = core.ObjOf(info, c.Args[2])
				}
			}
			core.RuleMustPassN(r, f, g, rule, "writeJSON", g.Calling(call("http.HealthReadyHandler.writeJSON")), nil)
		}
		if !r.Check(status != nil, rule, f.String(), "status-var", f.Pos(), "the HTTP status passed to writeJSON is a local variable") {
			continue
		}
		var set503 []*core.Node
		okAssign := true
		n200 := 0
		for _, a := range core.AssignsTo8(info, f.Decl.Body, status) {
			if a.Rhs == nil {
				okAssign = false
				continue
			}
			v, isC := core.IntConst8(info, a.Rhs)
			if !isC {
				okAssign = false
				continue
			}
			switch i, _ := constant.Int64Val(v); i {
			case 200:
				n200++
			case 503:
				if n := g.NodeOf(a.Stmt); n != nil {
					set503 = append(set503, n)
				}
			default:
				okAssign = false
			}
		}
		if !r.Check(okAssign && n200 == 1 && len(set503) == 1, rule, f.String(), "status-assignments", f.Pos(), "status is 200 initially and assigned 503 at one place") {
			continue
		}
		core.RuleOnlyVia8(r, f, g, rule, "status=503", "Status() is fail", func(n *core.Node) bool { return n == set503[0] }, gate, 1)
		bad := false
		for _, n := range g.Nodes {
			for _, e := range n.Succ {
				if gate(e) && len(exitsReachable8(g, []*core.Node{e.To}, func(x *core.Node) bool { return x == set503[0] })) > 0 {
					bad = true
				}
				if gate(e) {
					// writeJSON must not be reached from the failing edge without the 503 assignment
					if len(wj) == 1 && g.Reach([]*core.Node{e.To}, func(x *core.Node) bool { return x == set503[0] }, nil)[wj[0]] {
						bad = true
					}
				}
			}
		}
		r.Check(!bad, rule, f.String(), "fail-without-503", g.Line(set503[0]), "a failing aggregate always sets 503 before the response is written")
		// the 200 initialisation precedes the test (not after)
		after := g.Reach(core.After(set503[0], nil), nil, nil)
		reset := false
		for x := range after {
			if as, ok := x.N.(*ast.AssignStmt); ok {
				for _, l := range as.Lhs {
					if core.ObjOf(info, l) == status {
						reset = true
					}
				}
			}
		}
		r.Check(!reset, rule, f.String(), "status-overwritten", g.Line(set503[0]), "status is not reassigned after the 503 assignment")
	}
	// writeReady lists exactly the failing checks
	if f := r.Need(p, httpPk8, "HealthReadyHandler.writeReady"); f != nil {
		core.RuleHasCall(r, f, rule, "failingChecks", call("http.failingChecks"))
	}
	if f := r.Need(p, httpPk8, "HealthReadyHandler.writeHealth"); f != nil {
		core.RuleHasCall(r, f, rule, "firstFailureMessage", call("http.firstFailureMessage"))
	}
	if f := r.Need(p, httpPk8, "failingChecks"); f != nil {
		g := f.Graph()
		info := f.Info()
		var loopVar types.Object
		ast.Inspect(f.Decl.Body, func(n ast.Node) bool {
			if rs, ok := n.(*ast.RangeStmt); ok && rs.Value != nil && core.ObjOf(info, rs.X) == f.Obj.Type().(*types.Signature).Params().At(0) {
				loopVar = core.ObjOf(info, rs.Value)
			}
			return true
		})
		gate := nonPass(info, func(x ast.Expr) bool { return loopVar != nil && core.ObjOf(info, x) == loopVar })
		app := func(n *core.Node) bool {
			for _, c := range core.CallsIn(info, n.N, core.Builtin("append"), core.WalkOpts{}) {
				if len(c.Args) == 2 && core.ObjOf(info, c.Args[1]) == loopVar && loopVar != nil {
					return true
				}
			}
			return false
		}
		if core.RuleOnlyVia8(r, f, g, rule, "append", "c.Status() is fail", app, gate, 1) {
			bad := false
			an := g.Select(app)
			for _, n := range g.Nodes {
				for _, e := range n.Succ {
					if gate(e) {
						reach := g.Reach([]*core.Node{e.To}, app, nil)
						if reach[n] || len(exitsReachable8(g, []*core.Node{e.To}, app)) > 0 {
							bad = true
						}
					}
				}
			}
			r.Check(!bad && len(an) == 1, rule, f.String(), "failing-check-skipped", g.Line(an[0]), "every failing check is appended")
			// returns the accumulated slice
			okRet := false
			if as, ok := an[0].N.(*ast.AssignStmt); ok && len(as.Lhs) == 1 {
				acc := core.ObjOf(info, as.Lhs[0])
				okRet = acc != nil
				for _, x := range g.Exits {
					rs, isRet := x.N.(*ast.ReturnStmt)
					if !isRet || len(rs.Results) != 1 || core.ObjOf(info, rs.Results[0]) != acc {
						okRet = false
					}
				}
			}
			r.Check(okRet, rule, f.String(), "returned-list", f.Pos(), "returns the accumulated list")
		}
	}
	if f := r.Need(p, httpPk8, "firstFailureMessage"); f != nil {
		g := f.Graph()
		info := f.Info()
		gate := nonPass(info, func(x ast.Expr) bool { return true })
		msgRet := func(n *core.Node) bool {
			rs, ok := n.N.(*ast.ReturnStmt)
			if !ok || len(rs.Results) != 1 {
				return false
			}
			if o := core.ObjOf(info, rs.Results[0]); o != nil {
				for _, a := range core.AssignsTo8(info, f.Decl.Body, o) {
					if c, ok := a.Rhs.(*ast.CallExpr); ok && call("kit/check.Response.Message")(info, c) {
						return true
					}
				}
			}
			return len(core.CallsIn(info, rs, call("kit/check.Response.Message"), core.WalkOpts{})) > 0
		}
		core.RuleOnlyVia8(r, f, g, rule, "return-message", "c.Status() is fail", msgRet, gate, 1)
	}
	// writeJSON writes the status it was given
	if f := r.Need(p, httpPk8, "HealthReadyHandler.writeJSON"); f != nil {
		g := f.Graph()
		info := f.Info()
		sig := f.Obj.Type().(*types.Signature)
		var status types.Object
		if sig.Params().Len() == 4 {
			status = sig.Params().At(2)
		}
		wh := g.Select(func(n *core.Node) bool {
			for _, c := range core.CallsIn(info, n.N, call("net/http.ResponseWriter.WriteHeader"), core.WalkOpts{}) {
				if len(c.Args) == 1 && core.ObjOf(info, c.Args[0]) == status && status != nil {
					return true
				}
			}
			return false
		})
		all := g.Select(g.Calling(call("net/http.ResponseWriter.WriteHeader")))
		r.Check(len(wh) == 1 && len(all) == 1, rule, f.String(), "WriteHeader(status)", f.Pos(), "the only WriteHeader call writes the status parameter")
		if len(wh) == 1 {
			core.RuleMustPassN(r, f, g, rule, "WriteHeader", func(n *core.Node) bool { return n == wh[0] }, nil)
		}
		// reassignments of status: only 500 under the marshal error
		for _, a := range core.AssignsTo8(info, f.Decl.Body, status) {
			n := g.NodeOf(a.Stmt)
			v, isC := core.IntConst8(info, a.Rhs)
			is500 := isC && constant.Compare(v, token.EQL, constant.MakeInt64(500))
			errEdge := g.NilFactEdge8(func(x ast.Expr) bool { return core.IsErrorType(info.TypeOf(x)) }, false)
			r.Check(n != nil && is500 && len(g.Bypassing8([]*core.Node{n}, errEdge)) == 0, rule, f.String(), "status-reassigned", p.Pos(a.Stmt.Pos()), "status is only replaced by 500 on a marshal error")
		}
	}
	// ServeHTTP dispatch
	if f := r.Need(p, httpPk8, "HealthReadyHandler.ServeHTTP"); f != nil {
		g := f.Graph()
		info := f.Info()
		for _, t := range []struct{ path, fn string }{{"/health", "http.HealthReadyHandler.writeHealth"}, {"/ready", "http.HealthReadyHandler.writeReady"}} {
			seen := map[string]bool{}
			gate := core.TagEdge8(func(tag, ce ast.Expr) bool {
				s, ok := strConst8(info, ce)
				if !ok || (s != t.path && s != t.path+"/") {
					return false
				}
				// the tag is r.URL.Path of the request parameter
				se, ok := ast.Unparen(tag).(*ast.SelectorExpr)
				if !ok || se.Sel.Name != "Path" {
					return false
				}
				seen[s] = true
				return true
			})
			tn := g.Calling(call(t.fn))
			core.RuleOnlyVia8(r, f, g, rule, t.fn, "path is "+t.path, tn, gate, 1)
			// and every such case reaches the writer
			bad := false
			for _, n := range g.Nodes {
				for _, e := range n.Succ {
					if gate(e) && len(exitsReachable8(g, []*core.Node{e.To}, tn)) > 0 {
						bad = true
					}
				}
			}
			r.Check(!bad && seen[t.path] && seen[t.path+"/"], rule, f.String(), "dispatch:"+t.path, f.Pos(), t.path+" and "+t.path+"/ always reach "+t.fn)
		}
	}
}

// ---------------------------------------------------------------- (7)

func c33Freshness(p *core.Prog, r *core.Report) {
	const rule = "freshness"
	pk := p.Pkg(checkPk8)
	if pk == nil {
		return
	}
	snap := core.LookupField(pk.Types, "FreshnessResponse", "snap")
	stale := core.LookupField(pk.Types, "FreshnessResponse", "staleness")
	if f := r.Need(p, checkPk8, "FreshnessResponse.Status"); f != nil && snap != nil && stale != nil {
		g := f.Graph()
		info := f.Info()
		var s types.Object
		ast.Inspect(f.Decl.Body, func(n ast.Node) bool {
			if as, ok := n.(*ast.AssignStmt); ok && len(as.Lhs) == 1 && len(as.Rhs) == 1 {
				if c, ok := as.Rhs[0].(*ast.CallExpr); ok && atomicOn8(snap, "Load")(info, c) {
					s = core.ObjOf(info, as.Lhs[0])
				}
			}
			return true
		})
		fwd := g.Calling(call("kit/check.Response.Status"))
		present := g.NilFactEdge8(func(x ast.Expr) bool { return s != nil && core.ObjOf(info, x) == s }, false)
		fresh := core.CmpFactEdge8(func(c core.Cmp8) bool {
			lc, ok := c.L.(*ast.CallExpr)
			return ok && call("time.Since")(info, lc) && core.FieldOf(info, c.R) == stale && (c.Op == token.LEQ || c.Op == token.LSS)
		})
		core.RuleOnlyVia8(r, f, g, rule, "forwarded-status", "snapshot present", fwd, present, 1)
		core.RuleOnlyVia8(r, f, g, rule, "forwarded-status/fresh", "age <= staleness", fwd, fresh, 1)
		// every other exit is StatusFail
		failC := pk.Types.Scope().Lookup("StatusFail")
		ok := true
		for _, x := range g.Exits {
			rs, isRet := x.N.(*ast.ReturnStmt)
			if !isRet || len(rs.Results) != 1 {
				ok = false
				continue
			}
			if g.Calling(call("kit/check.Response.Status"))(x) {
				continue
			}
			if selObj8(info, rs.Results[0]) != failC {
				ok = false
			}
		}
		r.Check(ok, rule, f.String(), "default-not-fail", f.Pos(), "without a fresh snapshot the status is StatusFail")
	}
	if f := r.Need(p, checkPk8, "FreshnessResponse.Update"); f != nil && snap != nil {
		core.RuleMustPassN(r, f, f.Graph(), rule, "snap.Store", f.Graph().Calling(atomicOn8(snap, "Store")), nil)
		core.RuleHasCall(r, f, rule, "time.Now", call("time.Now"))
	}
	// scheduler pulse
	if f := r.Need(p, runPk8, "SchedulerPulseCheck.Check"); f != nil {
		g := f.Graph()
		info := f.Info()
		rpk := p.Pkg(runPk8)
		thr := core.LookupField(rpk.Types, "SchedulerPulseCheck", "threshold")
		// deadline := w.Add(c.threshold) where w := c.sched.When()
		var w, deadline types.Object
		ast.Inspect(f.Decl.Body, func(n ast.Node) bool {
			as, ok := n.(*ast.AssignStmt)
			if !ok || len(as.Lhs) != 1 || len(as.Rhs) != 1 {
				return true
			}
			c, ok := as.Rhs[0].(*ast.CallExpr)
			if !ok {
				return true
			}
			if call("cmd/influxd/run.NextRunScheduled.When")(info, c) {
				w = core.ObjOf(info, as.Lhs[0])
			}
			if call("time.Time.Add")(info, c) && len(c.Args) == 1 && core.FieldOf(info, c.Args[0]) == thr && thr != nil {
				if se, ok := c.Fun.(*ast.SelectorExpr); ok && w != nil && core.ObjOf(info, se.X) == w {
					deadline = core.ObjOf(info, as.Lhs[0])
				}
			}
			return true
		})
		if r.Check(w != nil && deadline != nil, "pulse", f.String(), "deadline:absent", f.Pos(), "deadline = sched.When().Add(threshold)") {
			late := core.FactEdge8(func(x ast.Expr, v bool) bool {
				c, ok := x.(*ast.CallExpr)
				return ok && v && call("time.Time.After")(info, c) && len(c.Args) == 1 && core.ObjOf(info, c.Args[0]) == deadline
			})
			failN := g.Calling(call("kit/check.Fail", "kit/check.NamedFail", "kit/check.Error"))
			if core.RuleOnlyVia8(r, f, g, "pulse", "fail-response", "now.After(deadline)", failN, late, 1) {
				bad := false
				for _, n := range g.Nodes {
					for _, e := range n.Succ {
						if late(e) && len(exitsReachable8(g, []*core.Node{e.To}, failN)) > 0 {
							bad = true
						}
					}
				}
				r.Check(!bad, "pulse", f.String(), "late-not-failed", f.Pos(), "a scheduler later than the deadline always yields a fail response")
			}
		}
	}
}
