package main

import (
	"fmt"
	"os"
	"path/filepath"
	"sort"
	"strings"

	"verif/checker/core"
)

// selfTest runs every engine on the fixture module checker/testdata/fixrepo:
// each bad* function must be reported, each good* function must not. It is part
// of MANIFEST.setup_cmd, so an engine that silently stopped matching makes the
// setup fail instead of letting every check pass vacuously.
func selfTest() int {
	fix := filepath.Join(core.VerifDir(), "checker", "testdata", "fixrepo")
	if _, err := os.Stat(fix); err != nil {
		fmt.Println("selftest: fixture module missing:", err)
		return 1
	}
	os.Setenv("VERIF_REPO", fix)
	evdir, _ := os.MkdirTemp("", "verifself")
	defer os.RemoveAll(evdir)
	p, err := core.Load(core.LoadOpts{Patterns: []string{"./fx"}})
	if err != nil {
		fmt.Println("selftest: load:", err)
		return 1
	}
	r := core.NewReport("SELFTEST", "quick")
	write := core.CallTo("os.File.Write")
	sync := core.CallTo("os.File.Sync")
	for _, name := range []string{"goodWrite", "badWriteNoSync", "goodWriteViaHelper"} {
		f := r.Need(p, "fx", name)
		core.RuleMustPass(r, f, "must-sync", "Sync", sync, false)
	}
	for _, name := range []string{"goodWrite", "badWriteDropsError"} {
		f := r.Need(p, "fx", name)
		core.RuleErrorsUsed(r, f, "errors-used", "write/sync", core.Or(write, sync), false, 2)
	}
	core.RuleLocks(r, p, &core.LockRules{Pkg: "fx", Guards: []core.Guard{{Type: "box", Fields: []string{"n", "m"}, Locks: []string{"mu"}}}}, "guarded-by", 8)
	pk := p.Pkg("fx")
	mField := core.LookupField(pk.Types, "box", "m")
	core.RuleRecheckUnderLock(r, r.Need(p, "fx", "box.goodGetOrCreate"), "recheck", mField)
	core.RuleRecheckUnderLock(r, r.Need(p, "fx", "box.badGetOrCreate"), "recheck", mField)
	core.RuleSiblings(r, p, "fx", "sib.gen.go", nil, 1)
	core.RuleLockstep(r, p, "fx", "sib.gen.go", "Timestamps", "Values", 3)
	// decision table: a permission grants only with equal action and (no org or same org)
	for _, name := range []string{"matchGood", "matchBad"} {
		f := r.Need(p, "fx", name)
		doms := []core.DDomain{}
		for _, root := range []string{"G", "R"} {
			doms = append(doms, core.DDomain{Path: root + ".action", Values: []string{"r", "w"}},
				core.DDomain{Path: root + ".org", Values: []string{"nil", "ptr"}},
				core.DDomain{Path: "*" + root + ".org", Values: []string{"1", "2"}})
		}
		bad := 0
		core.EnumModels(doms, func(m core.DModel) {
			res, und := core.EvalOn(p, f, m, []core.DVal{core.Path("G"), core.Path("R")}, nil, nil)
			want := m["G.action"] == m["R.action"] && (m["G.org"] == "nil" || (m["R.org"] == "ptr" && m["*G.org"] == m["*R.org"]))
			if und != "" || res.Panicked || (res.Value == "true" && !want) {
				bad++
			}
		})
		r.Check(bad == 0, "grant-table", f.String(), "grants-more", f.Pos(), "table")
	}
	got := map[string]bool{}
	for _, k := range r.Violations() {
		got[k] = true
	}
	want := []string{
		"must-sync:fx.badWriteNoSync:Sync",
		"errors-used:fx.badWriteDropsError:os.File.Write",
		"errors-used:fx.badWriteDropsError:os.File.Sync",
		"guarded-by:fx.box.badGet:box.n:read",
		"guarded-by:fx.box.badWriteUnderReadLock:box.n:write",
		"guarded-by:fx.box.badAfterUnlock:box.n:read",
		"recheck:fx.box.badGetOrCreate:m:insert-without-recheck",
		"sibling-uniformity:fx.StringArr.Trim:differs-from-FloatArr.Trim",
		"parallel-array-lockstep:fx.StringArr.Trim:twin-mismatch",
		"grant-table:fx.matchBad:grants-more",
	}
	ok := true
	for _, w := range want {
		if !got[w] {
			fmt.Println("selftest: engine did NOT report the positive example", w)
			ok = false
		}
		delete(got, w)
	}
	var extra []string
	for k := range got {
		extra = append(extra, k)
	}
	sort.Strings(extra)
	for _, k := range extra {
		fmt.Println("selftest: unexpected report on a negative example:", k)
		ok = false
	}
	os.Unsetenv("VERIF_REPO")
	if !ok {
		fmt.Println("selftest: FAILED (all reports:", strings.Join(r.Violations(), " ; "), ")")
		return 1
	}
	fmt.Printf("selftest: ok (%d positive examples reported, no report on the negative ones)\n", len(want))
	return 0
}
