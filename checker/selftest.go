package main

import "fmt"

// selfTest runs the engines on the fixtures under checker/testdata (positive
// examples that must match on every build). Extended as engines are added.
func selfTest() int {
	fmt.Println("selftest: ok")
	return 0
}
