// Package fx holds positive and negative examples for the checker's engines.
// Every function named bad* must be reported by its engine, every good* must not.
package fx

import (
	"errors"
	"os"
	"sync"
)

// ---- E1/E5: durable write

func goodWrite(f *os.File, b []byte) error {
	if _, err := f.Write(b); err != nil {
		return err
	}
	if err := f.Sync(); err != nil {
		return err
	}
	return nil
}

func badWriteNoSync(f *os.File, b []byte, fast bool) error {
	if _, err := f.Write(b); err != nil {
		return err
	}
	if fast {
		return nil // success without Sync
	}
	return f.Sync()
}

func badWriteDropsError(f *os.File, b []byte) error {
	f.Write(b)
	_ = f.Sync()
	return nil
}

func goodWriteViaHelper(f *os.File, b []byte) error {
	if _, err := f.Write(b); err != nil {
		return err
	}
	return flush(f)
}

func flush(f *os.File) error { return f.Sync() }

// ---- E2: lockset

type box struct {
	mu sync.RWMutex
	n  int
	m  map[string]int
}

func (b *box) goodGet() int {
	b.mu.RLock()
	defer b.mu.RUnlock()
	return b.n
}

func (b *box) goodSetViaWrapper(v int) {
	b.lock()
	b.n = v
	b.unlock()
}

func (b *box) lock()   { b.mu.Lock() }
func (b *box) unlock() { b.mu.Unlock() }

func (b *box) badGet() int { return b.n }

func (b *box) badWriteUnderReadLock(v int) {
	b.mu.RLock()
	b.n = v
	b.mu.RUnlock()
}

func (b *box) badAfterUnlock() int {
	b.mu.Lock()
	b.mu.Unlock()
	return b.n
}

func (b *box) goodGetOrCreate(k string) int {
	b.mu.RLock()
	v, ok := b.m[k]
	b.mu.RUnlock()
	if ok {
		return v
	}
	b.mu.Lock()
	defer b.mu.Unlock()
	if v, ok := b.m[k]; ok {
		return v
	}
	b.m[k] = 1
	return 1
}

func (b *box) badGetOrCreate(k string) int {
	b.mu.RLock()
	v, ok := b.m[k]
	b.mu.RUnlock()
	if ok {
		return v
	}
	b.mu.Lock()
	defer b.mu.Unlock()
	b.m[k] = 1
	return 1
}

// ---- E9: decision table

type perm struct {
	action string
	org    *int
}

func matchGood(p, q perm) bool {
	if p.action != q.action {
		return false
	}
	if p.org == nil {
		return true
	}
	return q.org != nil && *p.org == *q.org
}

func matchBad(p, q perm) bool {
	if p.action != q.action {
		return false
	}
	if p.org == nil {
		return true
	}
	return q.org == nil || *p.org == *q.org
}

var errX = errors.New("x")
