package fx

type FloatArr struct {
	Timestamps []int64
	Values     []float64
}
type IntegerArr struct {
	Timestamps []int64
	Values     []int64
}
type StringArr struct {
	Timestamps []int64
	Values     []string
}

func (a *FloatArr) Trim(n int) {
	a.Timestamps = a.Timestamps[:n]
	a.Values = a.Values[:n]
}

func (a *IntegerArr) Trim(n int) {
	a.Timestamps = a.Timestamps[:n]
	a.Values = a.Values[:n]
}

// deviates from its siblings and breaks lockstep
func (a *StringArr) Trim(n int) {
	a.Timestamps = a.Timestamps[:n]
	a.Values = a.Values[:n+1]
}
