module github.com/influxdata/influxdb/v2

go 1.22
