package main

import (
	"encoding/json"
	"fmt"
	"os"
	"path/filepath"
	"strings"

	"verif/checker/core"
	"verif/checker/rules"
)

const envPrefix = "PATH=/opt/veriftools/go1.26.8/bin:$PATH GOTOOLCHAIN=local GOFLAGS=-mod=mod GOPROXY=off GOSUMDB=off GOWORK=off"

// writeManifest regenerates /verif/MANIFEST.json from the rule registry, so the
// manifest can never claim a property that has no rule set (or miss one).
func writeManifest() error {
	type level struct {
		Category  string `json:"category"`
		Text      string `json:"text"`
		DesignRef string `json:"design_ref"`
	}
	type check struct {
		PropertyID string `json:"property_id"`
		Quick      string `json:"quick_cmd"`
		Thorough   string `json:"thorough_cmd"`
		Evidence   string `json:"evidence_file"`
		Replay     string `json:"replay_cmd_template"`
		Engine     string `json:"engine"`
		Level      level  `json:"level_claimed"`
		LevelNote  string `json:"level_note"`
		Technique  string `json:"technique"`
	}
	var checks []check
	for _, id := range rules.IDs() {
		p := rules.Get(id)
		tech := p.Technique
		if tech == "" {
			tech = "static analysis: repo-specific path/ordering, error-discipline and table-agreement rules over go/types + go/cfg"
		}
		note := "trusted base: go/types, go/cfg (x/tools v0.50.0), the rule instance tables in /verif/checker/rules and the reading that produced them. "
		if p.NotCovered != "" {
			note += "Not decided: " + p.NotCovered
		}
		checks = append(checks, check{
			PropertyID: id,
			Quick:      "bin/verifcheck -p " + id + " -tier quick",
			Thorough:   "bin/verifcheck -p " + id + " -tier thorough",
			Evidence:   "evidence/" + id + ".json",
			Replay:     "bin/verifcheck -p " + id + " -replay {path}",
			Engine:     "verifcheck",
			Level:      level{Category: p.Level, Text: p.Explanation, DesignRef: "DESIGN.md §5 " + id},
			LevelNote:  note,
			Technique:  tech,
		})
	}
	type na struct {
		PropertyID string `json:"property_id"`
		Reason     string `json:"reason"`
	}
	nas := []na{}
	for _, x := range rules.NotApplicable {
		if rules.Get(x[0]) == nil {
			nas = append(nas, na{x[0], x[1]})
		}
	}
	// every property that is neither claimed nor declared not applicable is listed as pending
	if b, err := os.ReadFile(filepath.Join(core.VerifDir(), "properties.jsonl")); err == nil {
		listed := map[string]bool{}
		for _, x := range nas {
			listed[x.PropertyID] = true
		}
		for _, line := range strings.Split(string(b), "\n") {
			var rec struct {
				ID string `json:"id"`
			}
			if json.Unmarshal([]byte(line), &rec) == nil && rec.ID != "" && rules.Get(rec.ID) == nil && !listed[rec.ID] {
				nas = append(nas, na{rec.ID, "no rule set in this revision of the checker yet (planned: DESIGN.md §5); nothing is claimed for it"})
			}
		}
	}
	m := map[string]any{
		"version":   1,
		"setup_cmd": "cd /verif/checker && " + envPrefix + " go build -o /verif/bin/verifcheck . && cd /verif && bin/verifcheck -selftest",
		"hooks": map[string]any{
			"guard":            "verif",
			"enable":           "none needed: the checks read /repo's source (go/packages, from source on every run); no instrumentation is compiled in",
			"baseline_off_cmd": "for m in $(cat /w/out/gomods.txt); do MF=$(cd /repo/$m && . /w/out/goenv.sh && gomodflag); (cd /repo/$m && go test $MF -json -vet=off -count=1 -timeout 25m ./...); done",
			"source_commits":   []string{},
			"add_only":         true,
		},
		"engines": []map[string]any{{
			"name": "verifcheck", "path": "checker", "serves_properties": rules.IDs(),
			"kind_free_text": "custom static analyser (Go): loads /repo from source with go/packages, decides repo-specific rules on go/types + go/cfg (+ lockset dataflow, sibling normal-form comparison, finite decision tables)",
		}},
		"checks":         checks,
		"not_applicable": nas,
		"notes":          "Every check re-loads and re-type-checks /repo's working tree ($VERIF_REPO overrides the path for scratch copies). known_findings.json lists genuine defects recorded rather than repaired; it is never written at run time.",
	}
	b, err := json.MarshalIndent(m, "", " ")
	if err != nil {
		return err
	}
	fmt.Printf("manifest: %d checks, %d not applicable\n", len(checks), len(nas))
	return os.WriteFile(filepath.Join(core.VerifDir(), "MANIFEST.json"), append(b, '\n'), 0o644)
}
